#!/bin/bash
# Builds the framework from files on disk only (offline) and pre-builds both engines for /repo's tree.
set -e
cd "$(dirname "$0")"
. ./env.sh
mkdir -p bin evidence replays
"$VERIF_GO" build -o bin/overlaygen ./cmd/overlaygen
"$VERIF_GO" build -o bin/timc ./cmd/timc
./bin/timc build
