#!/bin/bash
# sweep.sh [quick|thorough] : run every registered check once, print a one-line summary per check
cd /verif
T=${1:-quick}
for c in $(python3 -c "import json;print(' '.join(x['property_id'] for x in json.load(open('MANIFEST.json'))['checks']))"); do
  s=$(date +%s); ./run.sh $c $T > /tmp/sweep_$c.log 2>&1; rc=$?; e=$(( $(date +%s) - s ))
  echo "$c rc=$rc ${e}s viol=$(grep -c '^VIOLATION' /tmp/sweep_$c.log) known=$(grep -c '^KNOWN-FINDING' /tmp/sweep_$c.log) $(grep -o 'exhaustive=[a-z]*' /tmp/sweep_$c.log | tail -1)"
done
