#!/bin/bash
# sweep.sh [quick|thorough] [ids…] : run every registered check once, print a one-line summary per check.
# Works from a `vp run` snapshot too: evidence and replays of the sweep go to <root>/sweep_out, not to /verif.
ROOT="$(cd "$(dirname "$0")/.." && pwd)"
cd "$ROOT"
T=${1:-quick}; shift
. ./env.sh
if [ ! -x bin/timc ]; then ./setup.sh >/dev/null || { echo "setup failed"; exit 2; }; fi
if [ "$ROOT" != "/verif" ]; then export VERIF_EVIDENCE_DIR="$ROOT/sweep_out/evidence" VERIF_REPLAY_DIR="$ROOT/sweep_out/replays"; mkdir -p "$ROOT/sweep_out"; fi
IDS="$*"
[ -z "$IDS" ] && IDS=$(python3 -c "import json;print(' '.join(x['property_id'] for x in json.load(open('MANIFEST.json'))['checks']))")
for c in $IDS; do
  s=$(date +%s); ./bin/timc check $c --tier $T > /tmp/sweep_${T}_$c.log 2>&1; rc=$?; e=$(( $(date +%s) - s ))
  echo "$c rc=$rc ${e}s viol=$(grep -c '^VIOLATION' /tmp/sweep_${T}_$c.log) known=$(grep -c '^KNOWN-FINDING' /tmp/sweep_${T}_$c.log) $(grep -o 'exhaustive=[a-z]*' /tmp/sweep_${T}_$c.log | tail -1)"
  grep '^VIOLATION' -A1 /tmp/sweep_${T}_$c.log | grep 'sig=' | head -5 | cut -c1-220
done
