#!/usr/bin/env python3
import json,sys
d=json.load(open(sys.argv[1]))
r=d['replay']
print('=====',d['sig'],'|', r.get('note'))
name=r['argv'][0]
print('--- argv',r['argv'],'cfg',r['cfg'])
print('--- variant src'); print(r['files'][name][:int(sys.argv[2]) if len(sys.argv)>2 else 900])
print('--- observed'); print(r['observed'][:1200])
print('--- expected'); print(r.get('expected','')[:1200])
if r.get('other'):
    o=r['other']; print('--- base src'); print(o['files'][o['argv'][0]][:int(sys.argv[2]) if len(sys.argv)>2 else 900])
