#!/bin/bash
# Runs all 585 golden tests of /repo (or $1) with ti actually built — the regression net for fix: commits.
. /verif/env.sh
R="${1:-/repo}"
cd "$R" && "$VERIF_GO" build -o ti . || exit 2
"$VERIF_GO" test -vet=off -count=1 -parallel=8 ./test/... 2>&1 | tail -15
rc=${PIPESTATUS[0]}
rm -f "$R/ti"
exit $rc
