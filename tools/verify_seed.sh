#!/bin/bash
# verify_seed.sh <PROP> <seeddir> [name]: confirm a seeded change in a scratch worktree (applies, builds, pinned baseline and all
# goldens pass, demo fails with / passes without), then run the property's quick check against that worktree (VERIF_REPO) and
# file everything under /verif/seeded/<name>/. /repo itself is never touched.
set -u
P="$1"; S="$2"; NAME="${3:-$P-1}"; TIER="${4:-quick}"
. /verif/env.sh
export VERIF_GO
WT=/tmp/vs-$NAME
git -C /repo worktree remove --force $WT 2>/dev/null
git -C /repo worktree add -q --detach $WT HEAD || exit 2
OUT=/verif/seeded/$NAME; mkdir -p $OUT
cp $S/patch.diff $OUT/patch.diff; cp $S/demo.sh $OUT/demo.sh 2>/dev/null; cp $S/README.md $OUT/README.md 2>/dev/null
res() { echo "$1" | tee -a $OUT/verify.log; }
: > $OUT/verify.log
res "base commit: $(git -C /repo rev-parse --short HEAD)"
if ! git -C $WT apply $S/patch.diff; then res "APPLY-FAILED"; git -C /repo worktree remove --force $WT; exit 1; fi
(cd $WT && $VERIF_GO build ./... ) || { res "BUILD-FAILED"; git -C /repo worktree remove --force $WT; exit 1; }
res "build: ok"
res "pinned baseline with change: $(/verif/tools/baseline_check.py $WT | head -1)"
VERIF_REPO=$WT /verif/bin/timc goldens > $OUT/goldens.log 2>&1; gr=$?
res "goldens with change (in-process runner, 585 tests): exit $gr $(tail -1 $OUT/goldens.log)"
if [ -f $S/demo.sh ]; then
  bash $S/demo.sh $WT > $OUT/demo_with.log 2>&1; d1=$?
  bash $S/demo.sh /repo > $OUT/demo_without.log 2>&1; d0=$?
  res "demo with change: exit $d1 ; without: exit $d0"
fi
(cd /verif && VERIF_REPO=$WT VERIF_EVIDENCE_DIR=$OUT/evidence VERIF_REPLAY_DIR=$OUT/replays ./bin/timc check $P --tier $TIER > $OUT/check.log 2>&1); cr=$?
res "check $P $TIER with change: exit $cr; $(grep -c '^VIOLATION' $OUT/check.log) VIOLATION lines"
grep '^VIOLATION' -A1 $OUT/check.log | head -4 >> $OUT/verify.log
rm -rf $OUT/replays $OUT/evidence
git -C /repo worktree remove --force $WT
