#!/usr/bin/env python3
# writes seeded/<name>/meta.json from verify.log plus the table below
import json,os,re,glob
NEEDS={
 "C01-1":("C01","a cycle that closes through an include/extend edge (two modules including each other) plus a def/ivar lookup inside the cycle; IsInheritanceCycle skips mixin edges"),
 "C02-1":("C02","a mixin cycle whose path crosses an include/extend edge after the first step and a later lookup that climbs the ancestors without finding its target"),
 "C02-from-C01":("C02","the C01-1 change checked against C02 (it hangs rather than crashes)"),
 "C03-1":("C03","at least two NUL runes in the input with text after the second one (only the first NUL is blanked)"),
 "C04-1":("C04","editor query on a file with a mixin cycle of length >= 2 and a def inside one of the modules"),
 "C05-1":("C05","one if/unless condition narrowing two different variables joined by && with an else branch; the polluted variable depends on Go map iteration order"),
 "C06-1":("C06","a string literal between the brackets of an index expression whose receiver is untyped/unknown/union-typed (SkipToTargetToken path), widened by newlines"),
 "C07-1":("C07","a generated configuration where Sub extends Base, overrides a Base method with a different signature, and Base's file sorts before Sub's; a call wrong for Base but fitting Sub's override"),
 "C08-1":("C08","a union-typed argument passed to a parameter declared as a union containing Untyped (Integer#<=>)"),
 "C09-1":("C09","a hash literal naming the same literal key twice with values of different types, followed by a lookup of that key"),
 "C10-1":("C10","the same variable tested twice in one && chain, read after the conditional (restore callbacks run FIFO)"),
 "C11-1":("C11","host with a block on a union-typed receiver / merge! / after an undefined method, and a fragment earlier in the file that calls a builtin block method"),
 "C12-1":("C12","assignment whose left side evaluates as a zero-argument builtin call (`inspect = a`, `s.upcase = 1`, `a.length, b = 1.5, 2`)"),
 "C13-1":("C13","renaming a user-defined setter method (def NAME=) with no same-named ivar/getter to a fresh name containing an underscore"),
 "C14-1":("C14","a call with at least three keyword arguments in a rotated order (b, c, a)"),
 "C15-1":("C15","two keyword parameters where one name is a strict prefix of the other continued by a digit (v:, v2:), both passed"),
 "C16-1":("C16","a class that both includes and extends the same module, and a call needing whichever registration came second"),
 "C17-1":("C17","two nested blocks where the outer block's parameter shadows an already typed outer variable and the inner block has a parameter of a different name (restore buffer shared by the singleton Do evaluator)"),
 "C18-1":("C18","a .ti-loader.json preload plus a top-level variable re-bound with another type in the target, or a forward-reference chain of depth >= 3 across the cut (the check round of preloaded files is skipped)"),
 "C19-1":("C19","a configured class split across files where the fragment carrying `extends` loads before another fragment of the same class, and a call of an inherited method"),
 "C20-1":("C20","an extra configured class in a frame nested under Builtin (Builtin::Zed) whose short name equals a user class used as a bare superclass"),
 "C21-1":("C21","a compact union with three or more alternatives (\"String|Int|Float\") against the long notation"),
 "C22-1":("C22","an endless def whose parameter list spans several rows (hint / --define row moves to the `) =` row)"),
 "C23-1":("C23","a receiver whose class (or ancestor) is defined inside a namespace with a superclass/include, or an ancestor module that itself includes a module (ancestor walk skips parents[0])"),
 "C24-1":("C24","--llm-nav --target=<name> where the method name is defined in two classes (first match wins)"),
 "C25-1":("C25","an RBS overload with a trailing positional but no rest parameter ((?Integer, Integer)): the trailing parameter is dropped"),
 "C26-1":("C26","an mrbc binding whose typed GET_*_ARG indexes are sparse (an argument read through untyped GET_ARG(n) in between)"),
 "C27-1":("C27","a class nested in a class, wrapped in two modules, whose unqualified superclass/mixin lives in the middle namespace (resolution jumps from M1::M2::Outer to M1)"),
 "C02-2":("C02","a method parameter declared with a default that is a target of a multiple assignment with an Array right-hand side (`first, second = second, first` in `def order(first, second = nil)`): the index loop no longer advances and reads no token"),
 "C04-2":("C04","a diagnostic whose message quotes a string literal that spans two lines (`attr_accessor \"na<newline>me\"`, `x.\"a<newline>b\"`): newline escaping moved from the central sink to one call site"),
 "C07-2":("C07","a configured method with a positional parameter and two or more keyword parameters declared in non-alphabetical order, called with a wrong-typed value for a keyword declared before but sorting after another supplied keyword"),
 "C08-2":("C08","one of the comparison operators of power 35 (==, !=, ===, <=>, =~, !~) in operator form with a brace hash literal as right operand (`n == {a: 1}`): the brace is taken for a block and no argument is collected"),
 "C13-2":("C13","a class with two user-defined ancestors (one attached by include/extend) that define the same method with different result types, and a rename that flips the alphabetical order of the ancestors"),
 "C14-2":("C14","a user-defined callee with a `**opts` parameter, two or more keyword arguments whose values have different types, and an output that renders the collected value union"),
 "C15-2":("C15","f(a) called directly with one type (site known in the first round) and through two intermediate methods with another type, callee defined first"),
 "C16-2":("C16","a class three namespaces deep whose unqualified superclass or included module is defined in a middle namespace (the outward walk jumps from A::B::C to A)"),
 "C17-2":("C17","a brace block after parenthesised arguments on a configured method that is overloaded and declares block_parameters only on the overload (Dir.glob / Dir.open / Dir.chdir shape)"),
 "C18-2":("C18","two or more preload files listed in an order that is not the lexical order of their paths, with conflicting definitions of a name the target uses (the preload list is sorted)"),
 "C01-2":("C01","a source file whose last two bytes contain ill-formed UTF-8 (Latin-1 text, or a byte prefix cut inside a multi-byte character); the reader advances by the canonical length of U+FFFD and slices past the end, outside the recover barrier"),
 "C03-2":("C03","a non-ASCII decimal digit (fullwidth, Arabic-Indic, Devanagari) at a token start or after `1.`: lexDigit rejects it without consuming it and emits Float tokens for ever"),
 "C05-2":("C05","two same-named classes in two different user modules holding a method with identical name, static-ness and signature text, listed by --llm-nav --target=<Class> or --llm-define --class=<Class> (sort leaves their order to map iteration)"),
 "C06-2":("C06","a comment line with an empty body (`#` directly followed by the newline) inserted between statements: the comment swallows the following source line and one row is lost"),
 "C09-2":("C09","an array grown by push/<< with a second nested array whose element types the first nested array lacks (`a = [[1]]; a << [\"x\"]`)"),
 "C10-2":("C10","a union containing a typed Array, a Hash with entries, or two different user classes, tested with is_a? and read in the else / a later elsif branch"),
 "C11-2":("C11","a fragment containing its own `case` inserted inside a `when` branch of a host `case` that has an `else` narrowing a union-typed subject (branch-type list shared by the singleton Case evaluator)"),
 "C12-2":("C12","a subclass of a configured class, a method below `private`, and an index assignment whose receiver is the bare name of an inherited method returning Array/Hash (`chars[0] = 1`). Detected at base 0bacf49; since fix 3e3bf5b (the bare name yields a copy) the change no longer reaches the table"),
}
for d in sorted(glob.glob('/verif/seeded/*/')):
    name=os.path.basename(d.rstrip('/'))
    log=open(d+'verify.log').read() if os.path.exists(d+'verify.log') else ''
    prop,needs=NEEDS.get(name,(name.split('-')[0],''))
    m=re.search(r'check (\w+) (\w+) with change: exit (\d+); (\d+) VIOLATION',log)
    meta={"property":prop,"needs_to_manifest":needs,
      "source":"written by an independent sub-agent that saw only the property text and a scratch worktree",
      "verified":{l.split(':')[0].strip():l.split(':',1)[1].strip() for l in log.splitlines() if ':' in l and not l.startswith(('VIOLATION','  sig'))},
      "detected_by_check": (m.group(3)=='1') if m else None,
      "check_run": (f"VERIF_REPO=<scratch worktree with patch> bin/timc check {m.group(1)} --tier {m.group(2)}" if m else None),
      "what_i_ran":"tools/verify_seed.sh: apply patch.diff in a scratch worktree of /repo HEAD; build; pinned baseline (67 stable tests); all 585 goldens on the in-process runner; demo.sh with and without the change; the property's quick check against the patched worktree"}
    json.dump(meta,open(d+'meta.json','w'),indent=1)
    print(name, meta['detected_by_check'])
