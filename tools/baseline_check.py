#!/usr/bin/env python3
# baseline_check.py <repo-dir>: runs the pinned baseline command (go test -json ./..., ti NOT built) and
# checks that every test listed as stable_pass in /root/.vp/BASELINE.json passes.
import json, subprocess, sys, os
repo = sys.argv[1]
base = json.load(open('/root/.vp/BASELINE.json'))
want = set(base['stable_pass'])
env = dict(os.environ)
go = env.get('VERIF_GO', 'go')
p = subprocess.run([go, 'test', '-json', '-vet=off', '-count=1', './...'], cwd=repo, env=env, capture_output=True, text=True)
passed = set()
for l in p.stdout.splitlines():
    try: e = json.loads(l)
    except Exception: continue
    if e.get('Action') == 'pass' and e.get('Test'):
        passed.add(f"{e['Package']}::{e['Test']}")
missing = sorted(want - passed)
print(f"baseline: {len(want & passed)}/{len(want)} stable tests pass")
if missing:
    print("MISSING", missing[:10]); sys.exit(1)
