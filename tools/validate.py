#!/opt/veriftools/pyvenv/bin/python3
import json,jsonschema,glob,sys
jsonschema.validate(json.load(open('/verif/MANIFEST.json')), json.load(open('/root/.vp/MANIFEST.schema.json')))
es=json.load(open('/root/.vp/EVIDENCE.schema.json'))
for f in sorted(glob.glob('/verif/evidence/C*.json')):
    jsonschema.validate(json.load(open(f)), es)
print('manifest + evidence valid')
