#!/usr/bin/env python3
# Generates MANIFEST.json from the table below (kept in one place so it is always valid).
import json

TRUST = ("Trusted: the overlay rewriting (os.Exit/watchdog/state reset by re-initialisation) keeps behaviour - checked on every run by "
         "byte-comparing a seed-rotated slice of executions with the unmodified binary, and every reported violation is first reproduced on the unmodified binary. "
         "Inputs beyond the stated bounds are not covered.")

checks = [
 # id, technique, level text, note
 ("C01", "bounded-exhaustive input enumeration on the real analysis code (in-process engine); candidates confirmed on the unmodified binary",
  "All token strings up to the stated length over the token alphabets (with/without final newline), every corpus and generated program, their prefixes and single-token deviations, sources that are not valid UTF-8 (every mid-character byte prefix of the corpus, ill-formed sequences around small hosts) and programs with two-line string literals in quoted positions are executed on the real evaluator; exit status, Go panics, worker death and the output line grammar are checked on every execution. Exhaustive within the stated bounds.",
  TRUST),
 ("C02", "bounded-exhaustive input enumeration with a tick-budget hang detector on the real code; hangs confirmed by `timeout` 3/3 on the unmodified binary",
  "Same input space as C01 plus all inheritance graphs with <=3 edges over 3 classes; a run is hung when it exhausts a 2M rune/token fetch budget (largest legitimate corpus run: 38k), recurses until the stack limit, or misses the driver deadline; each candidate is confirmed on the real binary.",
  TRUST + " A spin that neither fetches a rune nor a token nor recurses is only caught by the 30 s driver deadline."),
 ("C03", "exhaustive enumeration of all rune strings up to a length bound through the real lexer.Advance and parser.Read loops (explicit-state explorer linked against the real packages)",
  "Every string over a 50-rune alphabet (one representative per lexer branch, NUL, U+FFFD, non-ASCII blanks) up to length 4 (quick) / 5, over a 65-atom wide alphabet (adds non-ASCII digits, upper case, symbol, astral rune, separators, BOM, DEL, VT/FF, combining mark and three ill-formed byte sequences) up to length 3 / 4, and 6 over a 30-rune sub-alphabet (thorough), each with and without final newline, plus every rune prefix of every corpus file: token count bounded by length, reader cursor at end with nothing pending, no `read error`, no spin (tick budget).",
  "The explorer is built from /repo's lexer, reader and parser packages with accessor hooks for the reader cursor (overlay, tag verif). Findings are confirmed on the unmodified binary."),
 ("C06", "metamorphic bounded-exhaustive exploration: every statement boundary x layout edit on every corpus/generated program, executed on the real code and compared with the row-shifted original",
  "For each of the corpus and generated programs every statement boundary (harness line scanner) receives a blank line, a comment line and a comment line with an empty body (thorough: also indented and tight comments, a whitespace-only line, plain mode as well as -i), every safe single-line string literal is widened by 1 and 2 newlines, the final newline is stripped/doubled; the edited output must equal the original output with rows after the edit shifted.",
  TRUST + " The harness's line scanner (trusted) decides where a statement boundary is; it refuses files it does not understand."),
 ("C13", "metamorphic bounded-exhaustive exploration: every provably renameable identifier x fresh names, renamed program analysed by the real code and compared after inverting the substitution",
  "Every local, user method and user class of the corpus and generated programs that the harness's conservative token-role analysis proves renameable is renamed to fresh names of several lengths (quick: 2 per category; thorough: 4/3 incl. one-letter); the output with the fresh name substituted back must equal the original output.",
  TRUST + " The token-role analysis (trusted) refuses names with mixed roles, names occurring in strings/comments/symbols and files with heredocs."),
 ("C14", "exhaustive permutation exploration: every order of the keyword arguments of every generated call, analysed by the real code and compared with the first order",
  "User-defined and configured methods with 2-3 (quick) / 2-5 (thorough) keyword parameters (required, defaulted), calls supplying every subset of keys with Integer/String values, an optional unknown key and 0-1 positional, with and without parentheses, and user-defined callees collecting keywords in a double-splat parameter (alone, after a positional, after a keyword) with values of three types: all permutations must print identical output.",
  TRUST),
 ("C05", "schedule exploration over owned map-iteration order: every range-over-map execution is a scheduling point; SORTED/REVERSED/ROT policies plus all single-site deviations (deviation bound 1), outputs compared; dependences confirmed by repeated fresh runs of the unmodified binary",
  "Programs (generated, incl. programs built so that every sort key ties, + corpus) x 13 output modes are executed under the reference order, the global reversal and two rotations, and under every policy that reverses exactly one executed range statement (bound 1; capped per case, cap reported); every reference run is executed twice with other cases in between and scanned for heap addresses. Output must be byte-identical (multiset of lines for --define).",
  TRUST + " Map iteration order is owned at the granularity of range statements (sites found mechanically by the overlay generator); goroutine/GC schedules are assumed not to reach the output (no finalisers, pointer-keyed maps, time or randomness in non-test sources)."),
 ("C12", "explicit-state search over statement sequences with an in-package state dump (invariant on every state) plus a black-box probe oracle",
  "After a fixed prelude every sequence of statements from a 42-statement alphabet up to depth 2 (quick) / 3 (thorough), every corpus program that does not reopen a configured class, and for String/Array/Hash a subclass whose method writes through the bare name of every inherited zero-argument method, is analysed; the canonical dump of every configured TFrame entry must be identical before and after analysis (distinct table states are counted), and a probe block generated from the configuration must print the same types after the program as alone.",
  TRUST + " The table is observed through a dump hook added by the overlay (tag verif); scratch fields that lookups legitimately rewrite are excluded from the dump."),
 ("C18", "metamorphic bounded-exhaustive exploration: every top-level split of every program into preload file(s) + target, analysed by the real code and compared with the whole program",
  "Every corpus and generated program is split at every top-level statement boundary (small generated programs and the thorough tier: also pairs and triples of boundaries, two or three preload files listed in non-lexical name order) with a generated .ti-loader.json; the target's output must equal the whole program's output restricted to the target's rows and rebased, and must not name a preload file.",
  TRUST + " Top-level boundaries are recognised by the harness (keyword depth and column-0 indentation)."),
 ("C19", "bounded-exhaustive exploration of configuration layouts: load-order permutations and class-file splits of the shipped configuration, every program analysed under each and compared with the shipped layout",
  "The shipped configuration is loaded reversed, under cyclic rotations (quick: 5; thorough: all) and all adjacent transpositions (thorough), and with class files split in two in several load orders (quick: every third class); every corpus and generated program must print the same output as under the shipped file names.",
  TRUST),
 ("C20", "bounded-exhaustive exploration of configuration extensions: extra class files (fresh names in several frames, namespaced, with extends, and per-program short-name collisions with user classes), every program analysed with and without",
  "Each corpus and generated program is analysed with the shipped configuration and with one extra class file added (loaded first or last) that the program never mentions, including extras with instance properties / variables, foreign-frame classes shadowing configured classes, and for every user-defined class of the program a configured class of the same short name in a foreign frame (frame Builtin for classes that exist only inside a module); output must be identical.",
  TRUST),
 ("C21", "exhaustive exploration of notation pairs x method shapes x argument tuples: the same declaration written in both notations, every call analysed under both configurations",
  "For every notation pair of the property a generated class declares the method in notation A and in notation B (class and instance method; alone / after a required Int / before a trailing String); every argument tuple up to length 2 (quick) / 3 (thorough) over seven literal kinds and the --suggest rendering must give identical output under both configurations.",
  TRUST),
 ("C04", "bounded-exhaustive enumeration of (program, row, editor mode) triples on the real code with crash/hang detection and output-grammar oracle; candidates confirmed on the unmodified binary",
  "Every corpus and generated program x every row 0..lines+2 x {--suggest, --hover, --define}, plus line-boundary prefixes and cursor-after-dot variants (file cut after an identifier/)/] with `.` appended, with/without the remainder) at rows cursor-1..cursor+1, the buffer cut after an identifier with a just-opened construct appended (`[`, `[0`, `(`, ` do |`, ` { |v`, ...), and programs with two-line string literals in quoted positions: exit status 0, no panic, no hang, every line a %/@/$ record or a diagnostic of the target file.",
  TRUST),
 ("C11", "metamorphic bounded-exhaustive exploration: every admissible statement boundary of every host x every fragment, and ordered pairs of independent programs; real code, records outside the fragment compared after the row shift",
  "20 self-contained fragments over fresh names (conditionals, nested conditionals, case/in, case/when, blocks, array-literal statement, builtin calls on unions, hash merge, push, loop, modifier while/until/if/unless, ternary, begin/rescue) are inserted at every statement boundary that is not directly before a block closer / branch keyword / end of file (quick: 4 fragments everywhere, all fragments on the 150 smallest hosts and on generated hosts); whole independent programs are appended pairwise.",
  TRUST + " Boundaries come from the harness's line scanner. An erroneous fragment is not used: ti stops checking a body after its first error, which the statement does not rule out (DESIGN.md section 11)."),
 ("C27", "exhaustive exploration of class-group x wrapper x decoy placements, real code, records compared after removing the qualification prefix and mapping rows",
  "Eight class groups (single class, inheritance, mixin, private section, initialize arity, nested class with outside parent, Object-inherited methods, class-method chain) are analysed at top level and wrapped in one / two nested modules with outside references qualified, each alone and next to a same-named decoy class (top level before/after the wrapped group, or inside another module); the group's and its uses' records must be those of the top-level reference.",
  TRUST),
 ("C07", "exhaustive enumeration of (receiver class x configured method x argument tuple) calls, each analysed by the real code and judged by a three-valued reference acceptance model read from the same JSON",
  "Every configured instance method name (plus undeclared names) on 9 literal receivers x every argument tuple of length 0..2 (quick) / 0..3 (thorough) over 7 literal kinds and 3 union-typed variables, one call per program: whenever the reference model says 'certainly fails' (undeclared for the class and its ancestors, count outside every overload, an argument whose every class is rejected by every overload) a diagnostic must be on the call's row.",
  TRUST + " The reference model answers only on its certain domain (keyword parameters, block methods, mixed default unions, typed-array elements, Integer-for-Float, Unify-style parameters are 'unknown'). Configurations: the shipped core files, a generated base/subclass pair with an override in both file orders, a generated class covering every parameter-spec tuple over 11 parameter notations up to length 2 (thorough 3), a generated class with 0-1 positional and 2-3 keyword parameters in every declaration order x call order x value types, and a generated class with overloads (rest + trailing required vs. fixed arity, in both orders; inherited overloads through a user subclass) with hand-written verdicts."),
 ("C08", "same enumeration as C07, restricted to calls the reference acceptance model certainly accepts",
  "For every call of the C07 space that certainly fits a declaration (declared or inherited, count accepted, every class of every argument - including union-typed arguments - accepted) there must be no diagnostic on the call's row.",
  TRUST + " Same reference-model domain as C07."),
 ("C09", "exhaustive enumeration against a reference interpreter: (a) certainly-fitting configured calls with resolvable declared return types, (b) all straight-line programs up to a statement bound",
  "(a) `dbtp recv.m(args)` must print the declared return type with Self, Unify, OptionalUnify, typed arrays, unions and ?T resolved against the receiver; (b) every sequence of <=3 (quick) / <=4 (thorough) statements over literals, array/hash literals (incl. a repeated key), reassignment, copy, indexing, hash lookup, push, <<, OptionalUnify calls, nested array literals, push/<< of arrays and call chains is probed after every statement against the reference interpreter (set equality of types).",
  TRUST + " Conditional returns, Argument/SelfArgument/BlockResultArray style returns and whether an index expression may be nil are outside the reference's domain."),
 ("C10", "exhaustive enumeration of conditional skeletons against a reference variant-filter model",
  "Variable types {Integer|NilClass, Integer|String, Integer|String|NilClass, String|Array} x conditions (atoms and && pairs over nil?/!nil?/is_a?/!is_a? on one or two variables) x if/unless x none/else/elsif-else x filler statements (incl. an unrelated inner if and a block) x optional nested conditional, and the narrowing conditional wrapped in a branch of an enclosing conditional that narrows nothing (four positions, three outer tests), with dbtp probes in every branch and after the conditional; every probe must print the reference set (class level).",
  TRUST + " Probes whose reference set is empty (unreachable branch) are skipped."),
 ("C17", "exhaustive enumeration of block calls against a reference parameter-resolution model",
  "Receivers {Array<Integer>, Array<Integer String>, two Hashes, Range, String, Integer} x every configured block method visible on them x 0..declared+1 block variables x do/end and braces x shadowing of an outer variable x a nested inner block (reading / shadowing the outer parameter) with a block-local assignment, plus overloaded block methods of a generated class (only the overload declares block parameters) called with and without parenthesised arguments; probes on every parameter inside, and on the outer variable and the block-local after the block.",
  TRUST + " Declared block parameter kinds outside {Int,String,Symbol,NilClass,Float,Untyped,Unify,Flatten,Item} are not probed."),
 ("C15", "exhaustive enumeration of (parameter list x body x call-site argument-type tuple x arrangement) programs against a reference union/return-type model",
  "One user method with 5 parameter-list shapes and 5 body kinds, 1-3 (thorough 4) call sites over {Integer,String,NilClass,Float}, definition before/after the calls, calls inside another method or through a second method, and call chains of depth 1-3 with a direct site placed before/after the definitions or in a helper: the parameter's type in the body and in the -i signature must be the union of the call-site argument types (plus defaults), the call's type the body's result incl. explicit return, and a body operation failing for every / defined for every argument class must (not) be reported.",
  TRUST),
 ("C16", "exhaustive enumeration of generated hierarchies x call forms against a Ruby method-resolution/visibility reference",
  "Superclass chains of depth 1-3 (thorough 4), a method at each level under each visibility, include/extend (and both) of a module at each level, class methods via def self./class << self, initialize arities 0-2 x 0-3 arguments, 14 call forms, class names plain and colliding with configured short names, and classes inside 1-3 nested modules whose unqualified superclass / included module is defined at each enclosing level (with a top-level decoy); one call per program; undefined/invisible must be reported on the call row, defined and visible must not and must have the body's type.",
  TRUST),
 ("C22", "exhaustive enumeration of class bodies (sequences of definition kinds) x editor queries against generator-known def rows",
  "Sequences of items from 15 definition kinds (quick: three items over the first 11 kinds, two over all; thorough: three over all, four over the first 9): (plain, class << self with its own private/protected section, after private/protected/public, def self., class << self, endless, multi-line signature, endless multi-line, methods returning an instance of the own class / a peer class / a top-level class), optionally nested in a module, plus a top-level method: -i must give exactly one hint per method at its def row with the right c/ or i/ tag and visibility; --define --row=<call row> must contain the method's def row; --hover --row=<call row> must name the method.",
  TRUST + " Visibility tags of class methods are not checked."),
 ("C23", "exhaustive enumeration of receivers x cursor forms against a reference suggestion set computed from the configuration JSON",
  "An instance of every literal class, every configured class with class methods, user hierarchies (instance and class receivers, namespaced, module-in-module, visibility sections around class << self), each as `recv.` mid-file, as last line and inside a method body: every method of the class and its ancestors incl. Object/Kernel must be suggested, nothing outside that set, and no private/unrelated/wrong-kind method of the user classes.",
  TRUST + " The many deviations of the unchanged tree are pinned one by one (receiver, form, missing count) in known_findings.json."),
 ("C24", "exhaustive enumeration of call-site multisets against generator-known call graphs",
  "A target method with every multiset of 1-2 (thorough 3) call sites from 11 contexts (statement, assignment, if/elsif/unless/while condition, argument, block, loop body, two calls on one row as nested argument and as array elements) x 4 enclosings (top level, top-level method, instance method, class method): --llm-nav --target must list one caller per site with row and enclosing method/class and the right total; each caller's callee list may only contain written calls, once per written call.",
  TRUST),
 ("C25", "exhaustive enumeration of RBS signature shapes through the real converter under owned map order, then through ti",
  "AST documents for every shape {0-2 required, 0-2 optional, rest?, 0-1 trailing, 0-2 (thorough 3) required and optional keywords} (+ overload, alias, attribute; and documents in which an instance and a singleton method share a name, with aliases of either kind) go through rbs2json with a stand-in ruby: byte-identical JSON under SORTED/REVERSED/ROT map orders and repeated unmodified runs; prescribed argument order/flags/type mapping; ti with the emitted file reports a call with k=0..6 positionals exactly outside the RBS arity.",
  "rbs2json and c2json are built from /repo with the same map-order overlay (order policy from $VERIF_ORDER) and also unmodified. The Ruby RBS parser is absent: generation starts at the AST JSON the embedded script would print."),
 ("C26", "exhaustive enumeration of C binding definitions through the real converter, then through ti",
  "Every MRB_ARGS combination (REQ 0-2, OPT 0-2, REST, POST 0-1, BLOCK, NONE, ANY) via both definers, every well-formed mrb_get_args format over {i,S,o,!,|,*,&} with <=1 (thorough 2) required and optional types, GET_*_ARG/argc patterns, one C function bound twice with different specs: converter output byte-identical under map orders and repeated runs; ti with the emitted file reports a call with k=0..6 positionals exactly outside the C definition's arity.",
  "No C compiler involved: the reference arity is the generator's reading of the spec/format/argc pattern."),
]
m = {
 "version": 1,
 "setup_cmd": "./setup.sh",
 "hooks": {
  "guard": "verif",
  "enable": "go build -tags verif -overlay <cache>/overlay/overlay.json (generated by bin/overlaygen from /repo's working tree; nothing is committed to /repo for hooks)",
  "baseline_off_cmd": "cd /repo && . /verif/env.sh && $VERIF_GO test -vet=off -count=1 ./...",
  "source_commits": [],
  "add_only": True
 },
 "engines": [
  {"name":"timc","path":"/verif/cmd/timc","serves_properties":[c[0] for c in checks],
   "kind_free_text":"hand-written bounded-exhaustive explorer: deterministic enumerators + in-process worker pool built from /repo with an AST overlay (state reset by re-initialisation, owned map order, tick-budget hang detection) + unmodified binary for confirmation"}
 ],
 "checks": [],
 "notes": "See DESIGN.md. Every check rebuilds both engines from /repo's current working tree (cached by tree hash). Known findings: known_findings.json.",
 "not_applicable": []
}
for cid, tech, text, note in checks:
    m["checks"].append({
      "property_id": cid,
      "quick_cmd": f"./run.sh {cid} quick",
      "thorough_cmd": f"./run.sh {cid} thorough",
      "evidence_file": f"/verif/evidence/{cid}.json",
      "replay_cmd_template": "./bin/timc replay {path}",
      "engine": "timc",
      "level_claimed": {"category":"model_checking","text":text,"design_ref":f"DESIGN.md §5 {cid}"},
      "level_note": note,
      "technique": tech,
    })
claimed = {c[0] for c in checks}
reasons = json.load(open("/verif/tools/not_applicable.json"))
for l in open("/verif/properties.jsonl"):
    p = json.loads(l)
    if p["id"] not in claimed:
        m["not_applicable"].append({"property_id": p["id"], "reason": reasons.get(p["id"], "check not built yet (work in progress); no other technique substituted")})
json.dump(m, open("/verif/MANIFEST.json","w"), indent=1)
print("claimed", sorted(claimed))
