module verif

go 1.24.5
