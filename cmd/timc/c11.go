package main

import (
	"fmt"
	"regexp"
	"strings"

	"verif/internal/engine"
	"verif/internal/gen"
)

func init() { register("C11", c11) }

var c11Fragments = []struct{ name, src string }{
	{"cond-isa", "zqu = true ? 1 : \"s\"\nif zqu.is_a?(Integer)\n  zqu + 1\nelse\n  zqu.upcase\nend"},
	{"block-each", "zqb = [1, 2]\nzqb.each do |zqe|\n  zqe + 1\nend"},
	{"unless-nil", "zqn = true ? 1 : nil\nunless zqn.nil?\n  zqn + 1\nend"},
	{"array-literal-stmt", "[1, 2].each { |zqx| zqx }"},
	{"simple", "zqa = 1\nzqa.to_s"},
	{"push-first", "zqc = [1, \"s\"]\nzqc.push(1.5)\nzqc.first"},
	{"hash-merge", "zqh = {zk: 1}\nzqh.merge({zj: \"s\"})"},
	{"while", "zqw = 0\nwhile zqw < 2\n  zqw = zqw + 1\nend"},
	{"union-call", "zqt = true ? \"s\" : :sym\nzqt.to_s\nzqm = 2 * 3"},
	{"nested-if", "zqp = true ? 1 : nil\nif zqp.nil?\n  zqq = 1\nelse\n  if zqp.is_a?(Integer)\n    zqp + 1\n  end\nend"},
	{"case-in", "zqk = 1\ncase zqk\nin Integer\n  zqk + 1\nelse\n  zqk.to_s\nend"},
	// fragments that end in a modifier form, a ternary, a rescue block, a case/when
	{"modifier-while", "zqv = 0\nzqv += 1 while zqv < 3"},
	{"modifier-until", "zqv = 0\nzqv += 1 until zqv > 3"},
	{"modifier-if", "zqv = 0\nzqv = 2 if zqv == 0"},
	{"modifier-unless", "zqv = 0\nzqv = 2 unless zqv == 1"},
	{"ternary", "zqv = 0\nzqy = zqv == 0 ? \"s\" : nil"},
	{"begin-rescue", "begin\n  zqv = 1\nrescue => zqe\n  zqv = 2\nend"},
	{"case-when", "zqk = true ? 1 : \"s\"\ncase zqk\nwhen 1\n  zqr = 1\nwhen \"s\"\n  zqr = 2\nelse\n  zqr = nil\nend"},
	// operator calls on union receivers, both variant orders (the result type is merged from two declarations)
	{"union-operator", "zqo = true ? \"zz\" : 7\nzqo * 2\nzqi = true ? 7 : \"zz\"\nzqi * 2\nzqf = true ? 1.5 : 2\nzqf + 1"},
	{"union-method", "zqo = true ? \"zz\" : [1]\nzqo.length\nzqo.to_s\nzqi = true ? {a: 1} : \"s\"\nzqi.to_s\nzqi.inspect"},
	// indexing a union-typed / untyped local (an expression that only resolves in a later round)
	{"index-union-local", "zqfu = [[1, 2], nil].first\nzqfv = zqfu[0]\nzqfw = [{a: 1}, nil].first\nzqfx = zqfw[:a]"},
}

// c11DefRe finds the names a program defines: `def name`, `def self.name`, `name =`, `|name|` / `|a, name|`.
var c11DefRe = regexp.MustCompile(`(?m)\bdef\s+(?:self\.)?([a-z_][A-Za-z0-9_]*[?!]?)|^\s*([a-z_][A-Za-z0-9_]*)\s*=[^=]|\|\s*([a-z_][A-Za-z0-9_]*)\s*[,|]|,\s*([a-z_][A-Za-z0-9_]*)\s*\|`)

// dropAndShift removes records on rows (k, k+n] and shifts later rows back by n.
func dropAndShift(out, file string, k, n int) string {
	if out == "" {
		return ""
	}
	var keep []string
	for _, l := range strings.Split(strings.TrimSuffix(out, "\n"), "\n") {
		pfx, rest := "", l
		if strings.HasPrefix(rest, "@") {
			pfx, rest = "@", rest[1:]
		}
		if !strings.HasPrefix(rest, file+":::") {
			keep = append(keep, l)
			continue
		}
		rest2 := rest[len(file)+3:]
		j := strings.Index(rest2, ":::")
		row, ok := 0, j > 0
		if ok {
			for _, c := range rest2[:j] {
				if c < '0' || c > '9' {
					ok = false
					break
				}
				row = row*10 + int(c-'0')
			}
		}
		if !ok {
			keep = append(keep, l)
			continue
		}
		if row > k && row <= k+n {
			continue
		}
		if row > k+n {
			row -= n
		}
		keep = append(keep, fmt.Sprintf("%s%s:::%d%s", pfx, file, row, rest2[j:]))
	}
	if len(keep) == 0 {
		return ""
	}
	return strings.Join(keep, "\n") + "\n"
}

func c11(x *ctx) {
	r := x.run
	thorough := x.tier == "thorough"
	r.Rule = "hosts (corpus and generated programs) x fragments (20 self-contained fragments over fresh zq* names: conditionals, blocks, array-literal statement, builtin calls on unions, hash merge, push, loops, modifier while/until/if/unless, ternary, begin/rescue, case/when and case/in) " +
		"x every statement boundary whose next statement is not a block closer/branch keyword and that is not the end of the file; records outside the fragment's rows must equal the host's records after the row shift; " +
		"plus appending a whole independent program (all ordered pairs of small corpus programs with disjoint user names). non-trivial = host prints records"
	r.Assumptions = []string{"statement boundaries come from the harness's conservative line scanner; a boundary directly before end/else/elsif/when/in/rescue/ensure or at end of file is excluded (the fragment would become the last statement of a body)"}
	progs := progSet(x)
	nHostsAll := 150
	if thorough {
		nHostsAll = len(progs)
	}
	small := gen.SortBySize(progs)
	isSmall := map[string]bool{}
	for i, p := range small {
		if i < nHostsAll {
			isSmall[p.Name] = true
		}
	}
	closers := map[string]bool{"end": true, "else": true, "elsif": true, "when": true, "in": true, "rescue": true, "ensure": true, "}": true, "]": true, ")": true}
	nIns := 0
	x.metamorphic(func(emit func(*mItem)) {
		for _, p := range progs {
			if strings.Contains(p.Src, "zq") {
				continue
			}
			lo := gen.Scan(p.Src)
			if lo.Refused || lo.Heredocs > 0 {
				continue
			}
			argv := []string{p.Name, "-i"}
			base := &engine.Case{Files: map[string]string{p.Name: p.Src}, Argv: argv}
			file := p.Name
			n := len(lo.Lines)
			for k := 0; k < n-1; k++ { // insertion after line k+1 (1-based), never after the last line
				if !lo.Lines[k].SafeAfter {
					continue
				}
				ni := k + 1
				for ni < n && (strings.TrimSpace(lo.Lines[ni].Text) == "" || strings.HasPrefix(strings.TrimSpace(lo.Lines[ni].Text), "#")) {
					ni++
				}
				if ni >= n || closers[lo.Lines[ni].FirstWord] || strings.HasPrefix(lo.Lines[ni].FirstWord, "end") {
					continue
				}
				indentN := len(lo.Lines[ni].Text) - len(strings.TrimLeft(lo.Lines[ni].Text, " \t"))
				pad := lo.Lines[ni].Text[:indentN]
				for fi, f := range c11Fragments {
					if !isSmall[p.Name] && !strings.HasPrefix(p.Name, "./g_") && fi >= 4 {
						continue
					}
					if !thorough && !strings.HasPrefix(p.Name, "./g_") && fi >= 4 && k%3 != 0 {
						continue
					}
					if !thorough && !strings.HasPrefix(p.Name, "./g_") && fi >= 11 && k%6 != 0 {
						continue
					}
					flines := strings.Split(f.src, "\n")
					var sb strings.Builder
					for i, l := range lo.Lines {
						sb.WriteString(l.Text + "\n")
						if i == k {
							for _, fl := range flines {
								sb.WriteString(pad + fl + "\n")
							}
						}
					}
					src := sb.String()
					if !lo.FinalNL {
						src = strings.TrimSuffix(src, "\n")
					}
					nIns++
					kk, nn, fname := k+1, len(flines), f.name
					cc := ctxClass(lo, k)
					emit(&mItem{baseKey: p.Name, base: base,
						variant: &engine.Case{Files: map[string]string{p.Name: src}, Argv: argv},
						norm:    func(o string) string { return dropAndShift(o, file, kk, nn) },
						sig: func(b, v string) string {
							return fmt.Sprintf("fragment:%s:after-%s:%s@%s:%d", fname, cc, diffClass(b, dropAndShift(v, file, kk, nn)), file, kk)
						},
						desc: fmt.Sprintf("fragment %q inserted after line %d of %s", fname, kk, file)})
				}
			}
		}
		// appending a whole independent program
		nPair := 25
		if thorough {
			nPair = 60
		}
		var cands []gen.Prog
		for _, p := range small {
			if len(cands) >= nPair {
				break
			}
			if strings.HasPrefix(p.Name, "./g_") || strings.Contains(p.Src, "class ") || strings.Contains(p.Src, "module ") {
				continue
			}
			cands = append(cands, p)
		}
		shipped := configuredNames(gen.ShippedConfig(engine.RepoRoot))
		userNames := func(p gen.Prog) map[string]bool {
			m := map[string]bool{}
			for _, t := range gen.Tokenize(p.Src) {
				if !t.Space && localRe.MatchString(t.Text) && !rubyKeywords[t.Text] && !shipped[t.Text] {
					m[t.Text] = true
				}
			}
			return m
		}
		for _, a := range cands {
			na := userNames(a)
			la := strings.Count(a.Src, "\n")
			if !strings.HasSuffix(a.Src, "\n") {
				continue
			}
			for _, b := range cands {
				if a.Name == b.Name {
					continue
				}
				disjoint := true
				for n := range userNames(b) {
					if na[n] {
						disjoint = false
					}
				}
				// a name one program defines (method, variable, parameter) must not occur in the other at all, even
				// when the configuration knows the name too (`"1".test` next to `def test`)
				for _, pr := range [][2]gen.Prog{{a, b}, {b, a}} {
					all := map[string]bool{}
					for _, t := range gen.Tokenize(pr[1].Src) {
						all[t.Text] = true
					}
					for _, m := range c11DefRe.FindAllStringSubmatch(pr[0].Src, -1) {
						for _, g := range m[1:] {
							if g != "" && all[g] {
								disjoint = false
							}
						}
					}
				}
				if !disjoint {
					continue
				}
				argv := []string{a.Name, "-i"}
				file := a.Name
				nb := strings.Count(b.Src, "\n") + 1
				bn := b.Name
				emit(&mItem{baseKey: a.Name, base: &engine.Case{Files: map[string]string{a.Name: a.Src}, Argv: argv},
					variant: &engine.Case{Files: map[string]string{a.Name: a.Src + b.Src}, Argv: argv},
					norm:    func(o string) string { return dropAndShift(o, file, la, nb+5) },
					sig: func(bo, v string) string {
						return fmt.Sprintf("append-program:%s@%s+%s", diffClass(bo, dropAndShift(v, file, la, nb+5)), file, bn)
					},
					desc: fmt.Sprintf("program %s appended to %s", bn, file)})
			}
		}
	}, nil)
	r.Bounds = map[string]any{"hosts": len(progs), "fragments": len(c11Fragments), "insertions": nIns, "hosts_with_all_fragments": nHostsAll}
	r.Sample(map[string]any{"fragment": c11Fragments[0].src, "host": "./g_def_0.rb", "after_line": 2})
	r.Sample(map[string]any{"fragment": c11Fragments[3].src, "note": "array literal at statement start"})
}
