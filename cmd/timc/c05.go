package main

import (
	"fmt"
	"regexp"
	"sort"
	"strings"

	"verif/internal/engine"
	"verif/internal/gen"
)

func init() { register("C05", c05) }

var addrRe = regexp.MustCompile(`0x[0-9a-f]{6,}`)

func sortedLines(s string) string {
	ls := strings.Split(s, "\n")
	sort.Strings(ls)
	return strings.Join(ls, "\n")
}

type c05mode struct {
	name  string
	argv  func(p gen.Prog) []string
	asSet bool
}

func c05modes(thorough bool) []c05mode {
	firstDef := regexp.MustCompile(`(?m)^\s*def\s+(?:self\.)?([a-z_][A-Za-z0-9_?!]*)`)
	firstClass := regexp.MustCompile(`(?m)^\s*class\s+([A-Z][A-Za-z0-9]*)`)
	lastRow := func(p gen.Prog) int { return strings.Count(strings.TrimRight(p.Src, "\n"), "\n") + 1 }
	callRow := func(p gen.Prog) int {
		// last line containing a '.' call
		ls := strings.Split(p.Src, "\n")
		for i := len(ls) - 1; i >= 0; i-- {
			if strings.Contains(ls[i], ".") && !strings.HasPrefix(strings.TrimSpace(ls[i]), "#") {
				return i + 1
			}
		}
		return 1
	}
	ms := []c05mode{
		{"plain", func(p gen.Prog) []string { return nil }, false},
		{"-i", func(p gen.Prog) []string { return []string{"-i"} }, false},
		{"--suggest", func(p gen.Prog) []string { return []string{"--suggest", fmt.Sprintf("--row=%d", callRow(p))} }, false},
		{"--hover", func(p gen.Prog) []string { return []string{"--hover", fmt.Sprintf("--row=%d", callRow(p))} }, false},
		{"--define", func(p gen.Prog) []string { return []string{"--define", fmt.Sprintf("--row=%d", callRow(p))} }, true},
		{"--llm-nav", func(p gen.Prog) []string { return []string{"--llm-nav"} }, false},
		{"--llm-nav--all", func(p gen.Prog) []string { return []string{"--llm-nav", "--all"} }, false},
		{"--llm-nav--target", func(p gen.Prog) []string {
			if m := firstDef.FindStringSubmatch(p.Src); m != nil {
				return []string{"--llm-nav", "--target=" + m[1]}
			}
			return []string{"--llm-nav", "--target=to_s"}
		}, false},
		{"--llm-define", func(p gen.Prog) []string { return []string{"--llm-define"} }, false},
		{"--llm-nav--target-class", func(p gen.Prog) []string {
			if m := firstClass.FindStringSubmatch(p.Src); m != nil {
				return []string{"--llm-nav", "--target=" + m[1]}
			}
			return []string{"--llm-nav", "--target=String"}
		}, false},
		{"--llm-define--class", func(p gen.Prog) []string {
			if m := firstClass.FindStringSubmatch(p.Src); m != nil {
				return []string{"--llm-define", "--class=" + m[1]}
			}
			return []string{"--llm-define", "--class=String"}
		}, false},
		{"--llm-class", func(p gen.Prog) []string { return []string{"--llm-class"} }, false},
		{"--extends", func(p gen.Prog) []string {
			if m := firstClass.FindStringSubmatch(p.Src); m != nil {
				return []string{"--extends", "--class=" + m[1]}
			}
			return []string{"--extends", "--class=String"}
		}, false},
	}
	ms = append(ms, c05mode{"--extends-last-class", func(p gen.Prog) []string {
		all := firstClass.FindAllStringSubmatch(p.Src, -1)
		if len(all) > 0 {
			return []string{"--extends", "--class=" + all[len(all)-1][1]}
		}
		return []string{"--extends", "--class=Integer"}
	}, false})
	if thorough {
		ms = append(ms, c05mode{"--hover-last", func(p gen.Prog) []string { return []string{"--hover", fmt.Sprintf("--row=%d", lastRow(p))} }, false},
			c05mode{"--suggest-1", func(p gen.Prog) []string { return []string{"--suggest", "--row=1"} }, false},
			c05mode{"-d", func(p gen.Prog) []string { return []string{"-d"} }, false})
	}
	return ms
}

func c05(x *ctx) {
	r := x.run
	thorough := x.tier == "thorough"
	r.Rule = "programs x output modes x map-iteration-order policies: SORTED is the reference; REVERSED, ROT(1), ROT(3) flip every range-over-map site at once; DEV(j) reverses only the j-th executed range statement, for every j (deviation bound 1); " +
		"each policy's output must be byte-identical to the reference (as a multiset of lines for --define); every reference case is executed twice with other cases in between and scanned for heap addresses; " +
		"order dependences are confirmed by repeated fresh runs of the unmodified binary; non-trivial = the reference output is non-empty"
	r.Assumptions = []string{"map iteration order, the only schedule-like nondeterminism that reaches the output, is owned at the granularity of range statements (11 sites, found mechanically)",
		"goroutine/GC schedules cannot influence output (no finalisers, pointer-keyed maps, time or randomness in non-test sources)"}
	progs := append(gen.Generated(), gen.DbpPrograms()...)
	progs = append(progs, gen.TiePrograms()...)
	corpus := gen.SortBySize(gen.Corpus(engine.RepoRoot))
	nCorpus := 120
	if thorough {
		nCorpus = len(corpus)
	}
	// programs with two same-named classes / overloads come from the corpus; take the smallest ones plus every
	// corpus program that mentions dbp (address leak candidate)
	for i, p := range corpus {
		if i < nCorpus || strings.Contains(p.Src, "dbp ") {
			progs = append(progs, p)
		}
	}
	modes := c05modes(thorough)
	type key struct {
		pi, mi int
	}
	// phase 1: reference runs (twice)
	var refCases []*engine.Case
	var keys []key
	for pi, p := range progs {
		for mi, m := range modes {
			argv := append([]string{p.Name}, m.argv(p)...)
			refCases = append(refCases, &engine.Case{Files: map[string]string{p.Name: p.Src}, Argv: argv, Order: "sorted"})
			keys = append(keys, key{pi, mi})
		}
	}
	ref := x.pool.RunAll(refCases)
	// second execution in a different order (different allocation history in each worker)
	var again []*engine.Case
	for i := len(refCases) - 1; i >= 0; i-- {
		c := *refCases[i]
		again = append(again, &c)
	}
	ref2rev := x.pool.RunAll(again)
	canon := func(mi int, s string) string {
		if modes[mi].asSet {
			return sortedLines(s)
		}
		return s
	}
	type cand struct {
		k      key
		policy string
		a, b   string
	}
	var cands []cand
	var recs []execRec
	for i, rr := range ref {
		r.Evaluations += 2
		r.States++
		out := outOf(rr)
		r.Outcome(modes[keys[i].mi].name + "|" + out)
		if out != "" {
			r.Nontrivial++
		}
		o2 := outOf(ref2rev[len(refCases)-1-i])
		if canon(keys[i].mi, out) != canon(keys[i].mi, o2) {
			cands = append(cands, cand{keys[i], "same-policy-rerun", out, o2})
		}
		if addrRe.MatchString(out) {
			cands = append(cands, cand{keys[i], "heap-address", out, out})
		}
		if !rr.Abnormal() && modes[keys[i].mi].name != "--define" && !addrRe.MatchString(out) {
			recs = append(recs, execRec{"default", refCases[i].Files, refCases[i].Argv, rr.Stdout})
		}
	}
	// phase 2: policies
	var polCases []*engine.Case
	type pk struct {
		ri     int
		policy string
	}
	var pks []pk
	maxDev := 64
	if thorough {
		maxDev = 120
	}
	for i, rr := range ref {
		if rr.Abnormal() {
			continue
		}
		pols := []string{"reversed", "rot:1", "rot:3"}
		n := rr.RangeExecs
		if n > maxDev {
			r.CapsHit = append(r.CapsHit, fmt.Sprintf("deviation policies capped at %d of %d range executions for %v", maxDev, n, refCases[i].Argv))
			n = maxDev
		}
		for j := 0; j < n; j++ {
			pols = append(pols, fmt.Sprintf("dev:%d", j))
		}
		// deviation bound 2 (thorough): every pair of range executions reversed, for runs with few of them
		if thorough && rr.RangeExecs <= 14 && caseSize(refCases[i]) < 400 {
			for j1 := 0; j1 < rr.RangeExecs; j1++ {
				for j2 := j1 + 1; j2 < rr.RangeExecs; j2++ {
					pols = append(pols, fmt.Sprintf("dev:%d,%d", j1, j2))
				}
			}
		}
		for _, pol := range pols {
			c := *refCases[i]
			c.Order = pol
			polCases = append(polCases, &c)
			pks = append(pks, pk{i, pol})
		}
	}
	if len(r.CapsHit) > 6 {
		r.CapsHit = append(r.CapsHit[:6], fmt.Sprintf("… %d more", len(r.CapsHit)-6))
	}
	pres := x.pool.RunAll(polCases)
	for i, pr := range pres {
		r.Evaluations++
		r.Transitions++
		k := keys[pks[i].ri]
		a, b := outOf(ref[pks[i].ri]), outOf(pr)
		if canon(k.mi, a) != canon(k.mi, b) {
			cands = append(cands, cand{k, pks[i].policy, a, b})
		}
	}
	r.Extra["candidates_inproc"] = len(cands)
	// group by (mode, program); confirm on the unmodified binary by repeated fresh runs
	type gk struct{ mode, prog string }
	groups := map[gk][]cand{}
	for _, c := range cands {
		g := gk{modes[c.k.mi].name, progs[c.k.pi].Name}
		groups[g] = append(groups[g], c)
	}
	var gks []gk
	for g := range groups {
		gks = append(gks, g)
	}
	sort.Slice(gks, func(i, j int) bool {
		if gks[i].mode != gks[j].mode {
			return gks[i].mode < gks[j].mode
		}
		return gks[i].prog < gks[j].prog
	})
	runsCap := 60
	if thorough {
		runsCap = 200
	}
	confirmedPerMode := map[string]int{}
	for _, g := range gks {
		cs := groups[g]
		c := cs[0]
		p := progs[c.k.pi]
		argv := append([]string{p.Name}, modes[c.k.mi].argv(p)...)
		files := map[string]string{p.Name: p.Src}
		sig := fmt.Sprintf("order:%s@%s", g.mode, p.Name)
		if c.policy == "heap-address" {
			sig = fmt.Sprintf("heap-address:%s@%s", g.mode, p.Name)
		}
		if confirmedPerMode[g.mode] >= 6 && r.Known(sig) == nil {
			// enough confirmed witnesses for this mode; further ones are counted as unconfirmed candidates
			r.Unconfirmed = append(r.Unconfirmed, sig+" (not individually confirmed: mode already has 6 confirmed witnesses)")
			continue
		}
		seen := map[string]bool{}
		var first, second string
		for i := 0; i < runsCap; i++ {
			rr := x.realStable("default", files, argv)
			o := canon(c.k.mi, rr.Stdout)
			if c.policy == "heap-address" {
				if addrRe.MatchString(o) {
					first, second = o, o
					seen["a"], seen["b"] = true, true
					break
				}
				continue
			}
			if !seen[o] {
				seen[o] = true
				if first == "" {
					first = o
				} else {
					second = o
					break
				}
			}
		}
		if len(seen) < 2 {
			r.Unconfirmed = append(r.Unconfirmed, fmt.Sprintf("%s: differs under policy %s in process, but %d fresh runs of the real binary agreed", sig, c.policy, runsCap))
			continue
		}
		confirmedPerMode[g.mode]++
		r.Validated++
		r.Report(sig, fmt.Sprintf("%s: output depends on map iteration order (policy %s) / differs between runs", sig, c.policy),
			ReplayDoc{Cfg: "default", Files: files, Argv: argv, Order: c.policy, Observed: head(first, 1500), Expected: "identical output on every run; another run printed:\n" + head(second, 1500)})
	}
	x.validateAgainstReal(recs, 40)
	r.Extra["aba_checks"] = len(refCases)
	r.Bounds = map[string]any{"programs": len(progs), "modes": len(modes), "policies": "sorted, reversed, rot:1, rot:3, dev:j for all j < range executions (cap " + fmt.Sprint(maxDev) + "); thorough: dev:j1,j2 for all pairs on programs under 400 bytes with <= 14 range executions",
		"real_runs_per_confirmation": runsCap}
	r.Sample(map[string]any{"program": progs[0].Name, "mode": "--llm-define", "policy": "dev:3 (only the 4th executed range statement iterates in reverse)"})
	r.Sample(map[string]any{"program": "./g_extra_4.rb", "mode": "plain", "policy": "reversed", "note": "two variables narrowed in one condition, with else"})
}
