package main

import (
	"fmt"
	"strings"

	"verif/internal/engine"
	"verif/internal/gen"
)

func init() { register("C06", c06) }

// progSet returns the programs the metamorphic checks run on: the corpus (editor-mode goldens are
// analysed with plain flags) plus generated programs.
func progSet(x *ctx) []gen.Prog {
	ps := gen.Corpus(engine.RepoRoot)
	ps = append(ps, gen.Generated()...)
	return ps
}

func ctxClass(lo *gen.Layout, k int) string {
	// class of the insertion context: first word of the nearest preceding non-blank line
	for i := k; i >= 0; i-- {
		w := lo.Lines[i].FirstWord
		if w == "" {
			continue
		}
		switch w {
		case "in", "when", "case", "if", "elsif", "else", "unless", "def", "class", "module", "end", "while", "for", "begin", "rescue", "private", "protected":
			return w
		}
		if strings.HasPrefix(w, "#") {
			return "comment"
		}
		return "stmt"
	}
	return "top"
}

func diffClass(exp, got string) string {
	el, gl := strings.Split(exp, "\n"), strings.Split(got, "\n")
	if len(el) != len(gl) {
		return "record-count"
	}
	rowsOnly := true
	for i := range el {
		if el[i] == gl[i] {
			continue
		}
		pe, pg := strings.SplitN(el[i], ":::", 3), strings.SplitN(gl[i], ":::", 3)
		if len(pe) == 3 && len(pg) == 3 && pe[0] == pg[0] && pe[2] == pg[2] {
			continue
		}
		rowsOnly = false
	}
	if rowsOnly {
		return "rows"
	}
	return "content"
}

func c06(x *ctx) {
	r := x.run
	thorough := x.tier == "thorough"
	r.Rule = "for every corpus and generated program: every statement boundary (decided by the harness's conservative line scanner) x {blank line, comment line, comment line with empty body; thorough: indented / tight comments, whitespace-only line}, " +
		"every single-line string literal x {1,2 embedded newlines}, {strip, double} final newline; output of the edited program must equal the row-shifted output of the original; " +
		"non-trivial = the original program produces output"
	r.Assumptions = []string{"the harness's line scanner decides which boundaries are statement boundaries; it refuses files with multi-line literals it does not understand",
		"records on the same row as a widened string literal may keep or shift their row (the statement does not say which)"}
	progs := progSet(x)
	edits := []struct{ name, text string }{{"blank", ""}, {"comment", "# c"}, {"empty-comment", "#"}}
	if thorough {
		edits = append(edits, struct{ name, text string }{"indented-comment", "    # c"}, struct{ name, text string }{"indented-empty-comment", "  #"},
			struct{ name, text string }{"tight-comment", "#c"}, struct{ name, text string }{"blank-with-spaces", "  "})
	}
	modes := [][]string{{"-i"}}
	if thorough {
		modes = append(modes, []string{})
	}
	nBound, nStr, refused := 0, 0, 0
	x.metamorphic(func(emit func(*mItem)) {
		for _, p := range progs {
			lo := gen.Scan(p.Src)
			if lo.Refused {
				refused++
			}
			for _, mode := range modes {
				argv := append([]string{p.Name}, mode...)
				base := &engine.Case{Files: map[string]string{p.Name: p.Src}, Argv: argv}
				bkey := p.Name + "|" + strings.Join(mode, " ")
				file := p.Name
				// final newline edits (always safe)
				for _, fe := range []struct {
					name string
					src  string
				}{{"strip-final-newline", strings.TrimRight(p.Src, "\n")}, {"second-final-newline", p.Src + "\n"}} {
					if fe.src == p.Src {
						continue
					}
					name := fe.name
					emit(&mItem{baseKey: bkey, base: base,
						variant: &engine.Case{Files: map[string]string{p.Name: fe.src}, Argv: argv},
						sig:     func(b, v string) string { return name + ":" + diffClass(b, v) + "@" + file },
						desc:    fmt.Sprintf("%s of %s", name, p.Name)})
				}
				if lo.Refused {
					continue
				}
				for k := -1; k < len(lo.Lines); k++ {
					if k >= 0 && !lo.Lines[k].SafeAfter {
						continue
					}
					nBound++
					for _, e := range edits {
						after := k + 1 // rows > after shift
						ename := e.name
						cc := "top"
						if k >= 0 {
							cc = ctxClass(lo, k)
						}
						emit(&mItem{baseKey: bkey, base: base,
							variant: &engine.Case{Files: map[string]string{p.Name: lo.InsertLine(k, e.text)}, Argv: argv},
							expect:  func(b string) string { return shiftRows(b, file, after, 1) },
							sig: func(b, v string) string {
								return "insert-" + ename + ":after-" + cc + ":" + diffClass(shiftRows(b, file, after, 1), v) + fmt.Sprintf("@%s:%d", file, after)
							},
							desc: fmt.Sprintf("%s line inserted after line %d of %s", ename, k+1, p.Name)})
					}
				}
				// consistent widening: every literal with the same text is widened together, so that literal
				// hash keys / index arguments keep denoting the same key (covers literals inside brackets)
				byText := map[string][]gen.StrLit{}
				var texts []string
				for _, s := range lo.Strings {
					lt := lo.Lines[s.Line].Text
					after := strings.TrimLeft(lt[s.End:], " ")
					if strings.HasPrefix(after, ":") && !strings.HasPrefix(after, "::") {
						continue // "key": symbol-style key
					}
					t := lt[s.Start:s.End]
					if _, ok := byText[t]; !ok {
						texts = append(texts, t)
					}
					byText[t] = append(byText[t], s)
				}
				for _, t := range texts {
					group := byText[t]
					inBrackets := false
					for _, s := range group {
						lt := lo.Lines[s.Line].Text
						if strings.Count(lt[:s.Start], "[") > strings.Count(lt[:s.Start], "]") {
							inBrackets = true
						}
					}
					if !inBrackets || len(t) <= 2 {
						continue // plain literals are covered one by one below
					}
					nStr++
					for _, n := range []int{1, 3} {
						n := n
						cnt := map[int]int{} // 0-based line -> widened literals on it
						for _, s := range group {
							cnt[s.Line]++
						}
						// variant source: process each line's literals right to left
						var sb strings.Builder
						for li, l := range lo.Lines {
							text := l.Text
							var onLine []gen.StrLit
							for _, s := range group {
								if s.Line == li {
									onLine = append(onLine, s)
								}
							}
							for k := len(onLine) - 1; k >= 0; k-- {
								s := onLine[k]
								text = text[:s.End-1] + strings.Repeat("\n", n) + text[s.End-1:]
							}
							sb.WriteString(text)
							if li < len(lo.Lines)-1 || lo.FinalNL {
								sb.WriteString("\n")
							}
						}
						// label of each base row / each variant row
						baseLabel := map[int]string{}
						varLabel := map[int]string{}
						shift := 0
						for b := 1; b <= len(lo.Lines)+2; b++ {
							c := cnt[b-1]
							lab := fmt.Sprint(b + shift)
							if c > 0 {
								lab = fmt.Sprintf("*%d", b)
							}
							baseLabel[b] = lab
							for v := b + shift; v <= b+shift+n*c; v++ {
								varLabel[v] = lab
							}
							shift += n * c
						}
						relabel := func(o string, labels map[int]string) string {
							return strings.ReplaceAll(mapRowsLabel(o, file, labels), "\\n", "")
						}
						emit(&mItem{baseKey: bkey, base: base,
							variant: &engine.Case{Files: map[string]string{p.Name: sb.String()}, Argv: argv},
							expect:  func(b string) string { return relabel(b, baseLabel) },
							norm:    func(o string) string { return relabel(o, varLabel) },
							sig: func(b, v string) string {
								return fmt.Sprintf("widen-all-equal-strings:+%d:%s@%s:%s", n, diffClass(relabel(b, baseLabel), relabel(v, varLabel)), file, head(t, 20))
							},
							desc: fmt.Sprintf("%d newline(s) added inside every literal %s of %s (%d occurrences)", n, t, p.Name, len(group))})
					}
				}
				for _, s := range lo.Strings {
					// ti tracks the value of literal hash keys / index arguments: widening such a literal
					// changes the program's meaning, so literals next to `[`, `]`, `=>`, `:` or inside a
					// brace/bracket group on their line are not widened.
					lt := lo.Lines[s.Line].Text
					before, after := strings.TrimRight(lt[:s.Start], " "), strings.TrimLeft(lt[s.End:], " ")
					if strings.HasSuffix(before, "[") || strings.HasSuffix(before, "{") || strings.HasPrefix(after, "]") ||
						strings.HasPrefix(after, "=>") || strings.HasPrefix(after, ":") || strings.Contains(lt, "=>") ||
						strings.Count(lt[:s.Start], "[") > strings.Count(lt[:s.Start], "]") ||
						strings.Count(lt[:s.Start], "{") > strings.Count(lt[:s.Start], "}") {
						continue
					}
					nStr++
					for _, n := range []int{1, 2} {
						row := s.Line + 1
						n := n
						// messages may quote the literal's value: the escaped newline the widening adds is removed
						// on both sides before comparing
						unq := func(o string) string { return strings.ReplaceAll(o, "\\n", "") }
						exp := func(b string) string { return unq(dropRowOn(shiftRows(b, file, row, n), file, row, row)) }
						emit(&mItem{baseKey: bkey, base: base,
							variant: &engine.Case{Files: map[string]string{p.Name: lo.WidenString(s, n)}, Argv: argv},
							expect:  exp,
							norm:    func(o string) string { return unq(dropRowOn(o, file, row, row+n)) },
							sig: func(b, v string) string {
								return fmt.Sprintf("widen-string:+%d:", n) + diffClass(exp(b), unq(dropRowOn(v, file, row, row+n))) + fmt.Sprintf("@%s:%d", file, row)
							},
							desc: fmt.Sprintf("%d newline(s) added inside the string literal on line %d of %s", n, row, p.Name)})
					}
				}
			}
		}
	}, &mOpts{skipAbnormal: false})
	r.Bounds = map[string]any{"programs": len(progs), "statement_boundaries": nBound, "string_literals": nStr, "files_refused_by_scanner": refused,
		"edits": len(edits), "modes": len(modes)}
	r.Sample(map[string]any{"edit": "insert `# c` after line 3", "program": progs[0].Name, "oracle": "rows > 3 shift by 1, everything else identical"})
	r.Sample(map[string]any{"edit": "strip final newline", "program": progs[len(progs)/2].Name})
}

// mapRowsLabel replaces the row of every record of `file` by labels[row] (rows without a label keep their number).
func mapRowsLabel(out, file string, labels map[int]string) string {
	if out == "" {
		return out
	}
	lines := strings.Split(out, "\n")
	for i, l := range lines {
		pfx, rest := "", l
		if strings.HasPrefix(rest, "@") {
			pfx, rest = "@", rest[1:]
		}
		if !strings.HasPrefix(rest, file+":::") {
			continue
		}
		rest2 := rest[len(file)+3:]
		j := strings.Index(rest2, ":::")
		if j <= 0 {
			continue
		}
		row, ok := 0, true
		for _, c := range rest2[:j] {
			if c < '0' || c > '9' {
				ok = false
				break
			}
			row = row*10 + int(c-'0')
		}
		if !ok {
			continue
		}
		lab, has := labels[row]
		if !has {
			lab = fmt.Sprint(row)
		}
		lines[i] = fmt.Sprintf("%s%s:::%s%s", pfx, file, lab, rest2[j:])
	}
	return strings.Join(lines, "\n")
}

// dropRowOn blanks the row number of records whose row lies in [lo,hi] (same-row records of a widened literal).
func dropRowOn(out, file string, lo, hi int) string {
	if out == "" {
		return out
	}
	lines := strings.Split(out, "\n")
	for i, l := range lines {
		pfx, rest := "", l
		if strings.HasPrefix(rest, "@") {
			pfx, rest = "@", rest[1:]
		}
		if !strings.HasPrefix(rest, file+":::") {
			continue
		}
		rest2 := rest[len(file)+3:]
		j := strings.Index(rest2, ":::")
		if j <= 0 {
			continue
		}
		row := 0
		ok := true
		for _, c := range rest2[:j] {
			if c < '0' || c > '9' {
				ok = false
				break
			}
			row = row*10 + int(c-'0')
		}
		if ok && row >= lo && row <= hi {
			lines[i] = fmt.Sprintf("%s%s:::*%s", pfx, file, rest2[j:])
		}
	}
	return strings.Join(lines, "\n")
}
