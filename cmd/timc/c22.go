package main

import (
	"fmt"
	"os"
	"sort"
	"strings"

	"verif/internal/engine"
)

func init() { register("C22", c22) }

type c22method struct {
	name     string
	defRow   int
	static   bool
	vis      string // public | private | protected | "" (not checked)
	callRow  int    // row of a top-level call (0 = none)
	nparams  int
	kind     string
	inBodyRow int   // row of an implicit call from inside another method (0 = none)
}

func c22(x *ctx) {
	r := x.run
	thorough := x.tier == "thorough"
	r.Rule = "generated classes whose body is every sequence of items from 15 kinds {plain def, `private`+def, `protected`+def, `public`+def, def self., class << self def, endless def, def with a multi-line signature, endless multi-line, class << self with its own private / protected section, methods returning an instance of the own class / a peer class / a top-level class} - quick: three items over the first 11 kinds, two items over all; thorough: three items over all, four over the first 9, " +
		"optionally nested in a module, plus a top-level method; every method is called on its own row (instance methods through an instance, class methods on the class, non-public ones from a public method of the class). " +
		"Oracles: -i prints exactly one signature hint per method at its def row tagged c/ or i/ with the visibility in effect (instance methods); --define --row=<call row> contains a record with the method's def row; " +
		"--hover --row=<call row> prints a %<method>::: record. non-trivial = all"
	r.Assumptions = []string{"visibility tag of class methods is not checked (Ruby: always public; the statement says 'in effect at the definition')"}
	// the last three kinds return an instance of a user class (the class itself / a peer class in the same namespace)
	kinds := []string{"plain", "private", "protected", "public", "def-self", "class-self", "endless", "multiline", "endless-multiline", "class-self-private", "class-self-protected",
		"returns-own", "self-returns-own", "returns-peer", "returns-top-peer", "ivar-reader"}
	nOldKinds := 11
	maxLen := 3
	if thorough {
		maxLen = 4
	}
	var seqs [][]int
	var rec func(cur []int)
	rec = func(cur []int) {
		if len(cur) > 0 {
			seqs = append(seqs, append([]int{}, cur...))
		}
		if len(cur) == maxLen {
			return
		}
		for i := range kinds {
			// quick: sequences of three items over the first 11 kinds, of two items over all kinds;
			// thorough: three items over all kinds, four items over the first 9 kinds
			hi := i
			for _, c := range cur {
				hi = max(hi, c)
			}
			n := len(cur) + 1
			if !thorough && n == 3 && hi >= nOldKinds {
				continue
			}
			if thorough && n == 4 && hi >= 9 {
				continue
			}
			rec(append(cur, i))
		}
	}
	rec(nil)
	type prog struct {
		src     string
		methods []c22method
		feat    string
		file    string
	}
	var progs []prog
	for _, seq := range seqs {
		for _, wrap := range []bool{false, true} {
			if wrap && !thorough && len(seq) > 2 {
				continue
			}
			var sb strings.Builder
			row := 0
			line := func(s string) { sb.WriteString(s + "\n"); row++ }
			ind := ""
			for _, ki := range seq {
				if kinds[ki] == "returns-top-peer" {
					line("class Tpeer")
					line("end")
					break
				}
			}
			if wrap {
				line("module Outer")
				ind = "  "
			}
			needPeer := false
			for _, ki := range seq {
				if kinds[ki] == "returns-peer" {
					needPeer = true
				}
			}
			if needPeer {
				line(ind + "class Peer")
				line(ind + "end")
			}
			line(ind + "class Gizmo")
			vis := "public"
			var ms []c22method
			for i, ki := range seq {
				name := fmt.Sprintf("meth%d", i)
				k := kinds[ki]
				switch k {
				case "plain":
					line(ind + "  def " + name + "(a)")
					ms = append(ms, c22method{name: name, defRow: row, vis: vis, nparams: 1, kind: k})
					line(ind + "    a")
					line(ind + "  end")
				case "private", "protected", "public":
					vis = k
					line(ind + "  " + k)
					line("")
					line(ind + "  def " + name + "(a)")
					ms = append(ms, c22method{name: name, defRow: row, vis: vis, nparams: 1, kind: k})
					line(ind + "    a")
					line(ind + "  end")
				case "def-self":
					line(ind + "  def self." + name + "(a)")
					ms = append(ms, c22method{name: name, defRow: row, static: true, nparams: 1, kind: k})
					line(ind + "    a")
					line(ind + "  end")
				case "class-self":
					line(ind + "  class << self")
					line(ind + "    def " + name + "(a)")
					ms = append(ms, c22method{name: name, defRow: row, static: true, nparams: 1, kind: k})
					line(ind + "      a")
					line(ind + "    end")
					line(ind + "  end")
				case "class-self-private", "class-self-protected":
					// the block has a visibility section of its own; the enclosing section continues after it
					line(ind + "  class << self")
					line(ind + "    " + strings.TrimPrefix(k, "class-self-"))
					line("")
					line(ind + "    def " + name + "(a)")
					ms = append(ms, c22method{name: name, defRow: row, static: true, nparams: 1, kind: k})
					line(ind + "      a")
					line(ind + "    end")
					line(ind + "  end")
				case "ivar-reader":
					// a method named like an instance variable of its class that it reads
					line(ind + "  def " + name)
					ms = append(ms, c22method{name: name, defRow: row, vis: vis, nparams: 0, kind: k})
					line(ind + "    @" + name + " = 1.5")
					line(ind + "    @" + name)
					line(ind + "  end")
				case "returns-own":
					line(ind + "  def " + name + "(a)")
					ms = append(ms, c22method{name: name, defRow: row, vis: vis, nparams: 1, kind: k})
					line(ind + "    Gizmo.new")
					line(ind + "  end")
				case "self-returns-own":
					line(ind + "  def self." + name + "(a)")
					ms = append(ms, c22method{name: name, defRow: row, static: true, nparams: 1, kind: k})
					line(ind + "    Gizmo.new")
					line(ind + "  end")
				case "returns-peer":
					line(ind + "  def " + name + "(a)")
					ms = append(ms, c22method{name: name, defRow: row, vis: vis, nparams: 1, kind: k})
					line(ind + "    Peer.new")
					line(ind + "  end")
				case "returns-top-peer":
					// the returned object lives in another namespace than the method (top level vs. Outer)
					line(ind + "  def " + name + "(a)")
					ms = append(ms, c22method{name: name, defRow: row, vis: vis, nparams: 1, kind: k})
					line(ind + "    Tpeer.new")
					line(ind + "  end")
				case "endless":
					line(ind + "  def " + name + "(a) = a")
					ms = append(ms, c22method{name: name, defRow: row, vis: vis, nparams: 1, kind: k})
				case "endless-multiline":
					line(ind + "  def " + name + "(")
					ms = append(ms, c22method{name: name, defRow: row, vis: vis, nparams: 2, kind: k})
					line(ind + "    a,")
					line(ind + "    b")
					line(ind + "  ) = a")
				case "multiline":
					line(ind + "  def " + name + "(")
					ms = append(ms, c22method{name: name, defRow: row, vis: vis, nparams: 2, kind: k})
					line(ind + "    a,")
					line(ind + "    b")
					line(ind + "  )")
					line(ind + "    a")
					line(ind + "  end")
				}
				line("")
			}
			// a public method calling the non-public ones
			line(ind + "  public")
			line("")
			line(ind + "  def use_all")
			for i := range ms {
				if !ms[i].static && ms[i].vis != "public" {
					args := "1"
					if ms[i].nparams == 2 {
						args = "1, 2"
					}
					if ms[i].nparams == 0 {
						line(ind + "    " + ms[i].name)
					} else {
						line(ind + "    " + ms[i].name + "(" + args + ")")
					}
					ms[i].inBodyRow = row
				}
			}
			line(ind + "    1")
			line(ind + "  end")
			line(ind + "end")
			q := ""
			if wrap {
				line("end")
				q = "Outer::"
			}
			line("def top_level_m(a)")
			ms = append(ms, c22method{name: "top_level_m", defRow: row, vis: "public", nparams: 1, kind: "top-level"})
			line("  a")
			line("end")
			if wrap {
				// a top-level method that returns an instance of the namespaced class
				line("def top_maker(a)")
				ms = append(ms, c22method{name: "top_maker", defRow: row, vis: "public", nparams: 1, kind: "top-level"})
				line("  " + q + "Gizmo.new")
				line("end")
			}
			line("obj = " + q + "Gizmo.new")
			for i := range ms {
				args := "1"
				if ms[i].nparams == 2 {
					args = "1, 2"
				}
				switch {
				case ms[i].kind == "top-level":
					line(ms[i].name + "(" + args + ")")
					ms[i].callRow = row
				case ms[i].static && strings.HasPrefix(ms[i].kind, "class-self-p"):
					// a private / protected class method: not called from outside (only its -i hint is checked)
				case ms[i].static:
					line(q + "Gizmo." + ms[i].name + "(" + args + ")")
					ms[i].callRow = row
				case ms[i].vis == "public" && ms[i].nparams == 0:
					line("obj." + ms[i].name)
					ms[i].callRow = row
				case ms[i].vis == "public":
					line("obj." + ms[i].name + "(" + args + ")")
					ms[i].callRow = row
				}
			}
			line("obj.use_all")
			var ks []string
			for _, ki := range seq {
				ks = append(ks, kinds[ki])
			}
			progs = append(progs, prog{sb.String(), ms, fmt.Sprintf("wrap=%v:%s", wrap, strings.Join(ks, ",")), "t.rb"})
		}
	}
	// cases: one -i run per program, plus --define/--hover per called method
	type cref struct {
		pi, mi int
		mode   string
	}
	var cases []*engine.Case
	var refs []cref
	for pi, p := range progs {
		cases = append(cases, &engine.Case{Cfg: "core", Files: map[string]string{"t.rb": p.src}, Argv: []string{"t.rb", "-i"}})
		refs = append(refs, cref{pi, -1, "-i"})
		for mi, m := range p.methods {
			rowsToAsk := []int{}
			if m.callRow > 0 {
				rowsToAsk = append(rowsToAsk, m.callRow)
			}
			for _, row := range rowsToAsk {
				for _, mode := range []string{"--define", "--hover"} {
					if !thorough && len(p.methods) > 3 && mode == "--define" && mi%2 == 1 {
						continue
					}
					cases = append(cases, &engine.Case{Cfg: "core", Files: map[string]string{"t.rb": p.src}, Argv: []string{"t.rb", mode, fmt.Sprintf("--row=%d", row)}})
					refs = append(refs, cref{pi, mi, mode})
				}
			}
		}
	}
	res := x.pool.RunAll(cases)
	type viol struct {
		idx  int
		desc string
	}
	bySig := map[string][]viol{}
	var recs []execRec
	for i, rr := range res {
		r.Evaluations++
		r.Transitions++
		r.Nontrivial++
		ref := refs[i]
		p := progs[ref.pi]
		if rr.Abnormal() {
			s := "abnormal:" + ref.mode + ":" + outOf(rr)
			bySig[s] = append(bySig[s], viol{i, outOf(rr)})
			continue
		}
		r.Outcome(ref.mode + "|" + outcomeShape(rr.Stdout, "t.rb"))
		if i%101 == 0 && ref.mode != "--define" {
			recs = append(recs, execRec{"core", cases[i].Files, cases[i].Argv, rr.Stdout})
		}
		lines := strings.Split(strings.TrimSuffix(rr.Stdout, "\n"), "\n")
		switch ref.mode {
		case "-i":
			hints := map[int][]string{}
			for _, l := range lines {
				if !strings.HasPrefix(l, "@t.rb:::") {
					continue
				}
				q := strings.SplitN(l[1:], ":::", 3)
				if len(q) == 3 && strings.HasPrefix(q[2], "(") {
					var row int
					fmt.Sscanf(q[1], "%d", &row)
					hints[row] = append(hints[row], q[2])
				}
			}
			for _, m := range p.methods {
				hs := hints[m.defRow]
				ctx := fmt.Sprintf("%s:%s", m.kind, visCtx(p.methods, m))
				switch {
				case len(hs) == 0:
					s := "c22:hint-missing:" + ctx
					bySig[s] = append(bySig[s], viol{i, fmt.Sprintf("no -i signature hint at def row %d of %s (%s)", m.defRow, m.name, p.feat)})
					continue
				case len(hs) > 1:
					s := "c22:hint-duplicated:" + ctx
					bySig[s] = append(bySig[s], viol{i, fmt.Sprintf("%d hints at def row %d of %s: %q", len(hs), m.defRow, m.name, hs)})
				}
				h := hs[0]
				wantCI := "[i/"
				if m.static {
					wantCI = "[c/"
				}
				if !strings.Contains(h, wantCI) {
					s := "c22:wrong-ci-tag:" + ctx
					bySig[s] = append(bySig[s], viol{i, fmt.Sprintf("hint %q for %s: expected tag %s", h, m.name, wantCI)})
				} else if !m.static && m.vis != "" && !strings.Contains(h, "/"+m.vis+"]") {
					s := "c22:wrong-visibility-tag:" + ctx
					bySig[s] = append(bySig[s], viol{i, fmt.Sprintf("hint %q for %s: expected visibility %s (%s)", h, m.name, m.vis, p.feat)})
				}
			}
			// no hint on rows that are not def rows
			defRows := map[int]bool{}
			for _, m := range p.methods {
				defRows[m.defRow] = true
			}
			for row := range hints {
				if !defRows[row] && !isUseAllRow(p.src, row) {
					s := "c22:hint-on-non-def-row"
					bySig[s] = append(bySig[s], viol{i, fmt.Sprintf("signature hint on row %d which is not a def row: %q (%s)", row, hints[row], p.feat)})
				}
			}
		case "--define":
			m := p.methods[ref.mi]
			want := fmt.Sprintf(":::%s:::t.rb:::%d", m.name, m.defRow)
			found := false
			for _, l := range lines {
				if strings.HasPrefix(l, "%") && strings.HasSuffix(l, want) {
					found = true
				}
			}
			if !found {
				s := fmt.Sprintf("c22:define-record-missing:%s:%s", m.kind, sectionCtx(p.methods, m))
				bySig[s] = append(bySig[s], viol{i, fmt.Sprintf("--define --row=%d has no record ending in %q for %s (%s); output head %q", m.callRow, want, m.name, p.feat, head(rr.Stdout, 200))})
			}
		case "--hover":
			m := p.methods[ref.mi]
			found := false
			for _, l := range lines {
				if strings.HasPrefix(l, "%"+m.name+":::") {
					found = true
				}
			}
			if !found {
				s := fmt.Sprintf("c22:hover-missing:%s:%s", m.kind, sectionCtx(p.methods, m))
				bySig[s] = append(bySig[s], viol{i, fmt.Sprintf("--hover --row=%d prints no %%%s::: record (%s); output %q", m.callRow, m.name, p.feat, head(rr.Stdout, 200))})
			}
		}
	}
	r.States = r.Evaluations
	r.Extra["mismatching_signatures"] = len(bySig)
	if dbg := os.Getenv("VERIF_DEBUG_SIGS"); dbg != "" {
		var sb strings.Builder
		for s, vs := range bySig {
			fmt.Fprintf(&sb, "%d\t%s\t%s\n", len(vs), s, vs[0].desc)
		}
		os.WriteFile(dbg, []byte(sb.String()), 0o644)
	}
	var sigs []string
	for s := range bySig {
		sigs = append(sigs, s)
	}
	sort.Strings(sigs)
	budget := 60
	for _, s := range sigs {
		vs := bySig[s]
		v := vs[0]
		if r.Known(s) == nil {
			if budget <= 0 {
				r.Unconfirmed = append(r.Unconfirmed, s+" (confirmation budget exhausted)")
				continue
			}
			budget--
			rr := x.realStable("core", cases[v.idx].Files, cases[v.idx].Argv)
			same := rr.Stdout == res[v.idx].Stdout
			if refs[v.idx].mode == "--define" {
				same = sortedLines(rr.Stdout) == sortedLines(res[v.idx].Stdout)
			}
			if !same {
				r.Unconfirmed = append(r.Unconfirmed, s+" (real binary prints something else)")
				continue
			}
			r.Validated++
		}
		for i := range vs {
			if i == 0 {
				r.Report(s, fmt.Sprintf("%s (%d cases): %s", s, len(vs), v.desc),
					ReplayDoc{Cfg: "inline", Files: cases[v.idx].Files, Argv: cases[v.idx].Argv, Observed: head(res[v.idx].Stdout, 1200), Expected: v.desc, Note: "configuration: the 21 core files of /repo/test/.ti-config"})
			} else {
				r.Report(s, "", nil)
			}
		}
	}
	x.validateAgainstReal(recs, 30)
	r.Bounds = map[string]any{"programs": len(progs), "item_kinds": kinds, "max_items": maxLen, "executions": len(cases)}
	r.Sample(map[string]any{"program": progs[len(progs)/2].src, "features": progs[len(progs)/2].feat})
}

// visCtx describes what precedes the method in the class body (for signatures): the kinds of the earlier items.
func visCtx(ms []c22method, m c22method) string {
	var prev []string
	for _, o := range ms {
		if o.defRow >= m.defRow {
			break
		}
		prev = append(prev, o.kind)
	}
	if len(prev) == 0 {
		return "first"
	}
	return "after-" + strings.Join(prev, ",")
}

// sectionCtx tells whether a private/protected section is open where m is defined.
func sectionCtx(ms []c22method, m c22method) string {
	open := "public-context"
	for _, o := range ms {
		if o.defRow >= m.defRow {
			break
		}
		switch o.kind {
		case "private", "protected":
			open = "after-" + o.kind + "-section"
		case "public":
			open = "public-context"
		}
	}
	return open
}

func isUseAllRow(src string, row int) bool {
	ls := strings.Split(src, "\n")
	if row-1 < 0 || row-1 >= len(ls) {
		return false
	}
	return strings.Contains(ls[row-1], "def use_all")
}
