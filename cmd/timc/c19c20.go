package main

import (
	"encoding/json"
	"fmt"
	"regexp"
	"sort"
	"strings"

	"verif/internal/engine"
	"verif/internal/gen"
)

func init() {
	register("C19", c19)
	register("C20", c20)
}

// orderedCfg renames the files of cfg so that they load in the given order (Glob sorts by name).
func orderedCfg(cfg map[string]string, order []string) map[string]string {
	out := map[string]string{}
	for i, n := range order {
		out[fmt.Sprintf("%03d_%s", i, n)] = cfg[n]
	}
	return out
}

// splitClassFile splits one class file into two files holding the first / second half of its
// instance and class methods (constants stay in the first); frame, class and extends are repeated.
func splitClassFile(content string) (a, b string, ok bool) {
	var m map[string]json.RawMessage
	if json.Unmarshal([]byte(content), &m) != nil {
		return "", "", false
	}
	var im, cm []json.RawMessage
	json.Unmarshal(m["instance_methods"], &im)
	json.Unmarshal(m["class_methods"], &cm)
	if len(im)+len(cm) < 2 {
		return "", "", false
	}
	mk := func(im, cm []json.RawMessage, withConst bool) string {
		o := map[string]any{}
		for _, k := range []string{"frame", "class", "extends"} {
			if v, ok := m[k]; ok {
				o[k] = v
			}
		}
		if withConst {
			for _, k := range []string{"constants", "instance_variables"} {
				if v, ok := m[k]; ok {
					o[k] = v
				}
			}
		}
		if im == nil {
			im = []json.RawMessage{}
		}
		if cm == nil {
			cm = []json.RawMessage{}
		}
		o["instance_methods"] = im
		o["class_methods"] = cm
		bs, _ := json.MarshalIndent(o, "", " ")
		return string(bs)
	}
	return mk(im[:len(im)/2], cm[:len(cm)/2], true), mk(im[len(im)/2:], cm[len(cm)/2:], false), true
}

func c19(x *ctx) {
	r := x.run
	thorough := x.tier == "thorough"
	r.Rule = "the shipped configuration is loaded under renamed files: reversed order, cyclic rotations and adjacent transpositions of the load order, and with each class file split in two " +
		"(both load orders, adjacent and far apart); every corpus and generated program must print the same output as under the shipped file names; non-trivial = program prints records"
	r.Assumptions = []string{"file order is controlled through file names (the loader globs *.json, which sorts by name)"}
	shipped := gen.ShippedConfig(engine.RepoRoot)
	names := gen.SortedKeys(shipped)
	cfgFiles := map[string]map[string]string{}
	type variant struct {
		name, desc string
	}
	var variants []variant
	add := func(name, desc string, files map[string]string) {
		cfgFiles[name] = files
		x.pool.NewCfgDir(name, files)
		variants = append(variants, variant{name, desc})
	}
	// load-order permutations
	rev := append([]string{}, names...)
	sort.Sort(sort.Reverse(sort.StringSlice(rev)))
	add("ord-rev", "load order reversed", orderedCfg(shipped, rev))
	rots := []int{1, 7, 13, 19, 29}
	if thorough {
		rots = nil
		for i := 1; i < len(names); i++ {
			rots = append(rots, i)
		}
	}
	for _, k := range rots {
		o := append(append([]string{}, names[k:]...), names[:k]...)
		add(fmt.Sprintf("ord-rot%d", k), fmt.Sprintf("load order rotated by %d", k), orderedCfg(shipped, o))
	}
	if thorough {
		for i := 0; i+1 < len(names); i++ {
			o := append([]string{}, names...)
			o[i], o[i+1] = o[i+1], o[i]
			add(fmt.Sprintf("ord-swap%d", i), fmt.Sprintf("files %s and %s swapped", names[i], names[i+1]), orderedCfg(shipped, o))
		}
	}
	// class splitting
	nSplit := 0
	for _, n := range names {
		a, b, ok := splitClassFile(shipped[n])
		if !ok {
			continue
		}
		nSplit++
		if !thorough && nSplit%3 != 1 {
			continue // quick: every third splittable class (documented bound)
		}
		stem := strings.TrimSuffix(n, ".json")
		for _, ord := range []string{"ab", "ba", "a-first-b-last", "b-first-a-last"} {
			if !thorough && (ord == "ba" || ord == "a-first-b-last") {
				continue
			}
			files := map[string]string{}
			for _, o := range names {
				if o != n {
					files[o] = shipped[o]
				}
			}
			switch ord {
			case "ab":
				files[stem+"_1.json"], files[stem+"_2.json"] = a, b
			case "ba":
				files[stem+"_1.json"], files[stem+"_2.json"] = b, a
			case "a-first-b-last":
				files["000_"+stem+".json"], files["zzz_"+stem+".json"] = a, b
			case "b-first-a-last":
				files["000_"+stem+".json"], files["zzz_"+stem+".json"] = b, a
			}
			add(fmt.Sprintf("split-%s-%s", stem, ord), fmt.Sprintf("class file %s split in two (%s)", n, ord), files)
		}
	}
	progs := progSet(x)
	if !thorough {
		// quick: order variants on all programs, split variants on programs mentioning the class
	}
	// generated classes with an extends chain and an override (Gbase <- Gsub <- Gleaf): one file per class is
	// the reference; variants split Gsub into a fragment that carries `extends` and one that does not, in
	// every load order relative to each other and to the parent's file.
	ret := func(t string) gen.CfgRet { return gen.CfgRet{Type: []string{t}} }
	newM := func(cls string) gen.CfgMethod {
		return gen.CfgMethod{Name: "new", Arguments: []gen.CfgArg{}, ReturnType: ret(cls)}
	}
	gbase := gen.CfgClass{Frame: "Builtin", Class: "Gbase", ClassMethods: []gen.CfgMethod{newM("Gbase")}, InstanceMethods: []gen.CfgMethod{
		{Name: "mm", Arguments: []gen.CfgArg{{Type: []string{"Int"}}}, ReturnType: ret("Int")},
		{Name: "nn", Arguments: []gen.CfgArg{}, ReturnType: ret("String")}}}
	gsubA := gen.CfgClass{Frame: "Builtin", Class: "Gsub", Extends: []string{"Gbase"}, ClassMethods: []gen.CfgMethod{newM("Gsub")}, InstanceMethods: []gen.CfgMethod{
		{Name: "kk", Arguments: []gen.CfgArg{{Type: []string{"Symbol"}}}, ReturnType: ret("Bool")}}}
	gsubB := gen.CfgClass{Frame: "Builtin", Class: "Gsub", InstanceMethods: []gen.CfgMethod{
		{Name: "mm", Arguments: []gen.CfgArg{{Type: []string{"String"}}, {Type: []string{"String"}}}, ReturnType: ret("Float")}}}
	// overloads of one class method spread over the two fragments: keyword-only declarations that share the
	// early-sorting key `a:`, and positional declarations of different types
	kw := func(k, t string) gen.CfgArg { return gen.CfgArg{Key: k, Type: []string{t}} }
	gsubA.ClassMethods = append(gsubA.ClassMethods,
		gen.CfgMethod{Name: "conf", Arguments: []gen.CfgArg{kw("a:", "Int"), kw("c:", "Int")}, ReturnType: ret("Int")},
		gen.CfgMethod{Name: "conv", Arguments: []gen.CfgArg{{Type: []string{"Int"}}}, ReturnType: ret("String")})
	gsubB.ClassMethods = append(gsubB.ClassMethods,
		gen.CfgMethod{Name: "conf", Arguments: []gen.CfgArg{kw("a:", "Int"), kw("d:", "String")}, ReturnType: ret("String")},
		gen.CfgMethod{Name: "conv", Arguments: []gen.CfgArg{{Type: []string{"String"}}}, ReturnType: ret("Int")})
	gsubWhole := gsubA
	gsubWhole.InstanceMethods = append(append([]gen.CfgMethod{}, gsubA.InstanceMethods...), gsubB.InstanceMethods...)
	gsubWhole.ClassMethods = append(append([]gen.CfgMethod{}, gsubA.ClassMethods...), gsubB.ClassMethods...)
	gleaf := gen.CfgClass{Frame: "Builtin", Class: "Gleaf", Extends: []string{"Gsub"}, ClassMethods: []gen.CfgMethod{newM("Gleaf")}, InstanceMethods: []gen.CfgMethod{
		{Name: "ll", Arguments: []gen.CfgArg{}, ReturnType: ret("Symbol")}}}
	genRef := gen.Merge(shipped, map[string]string{"gbase.json": gbase.JSON(), "gsub.json": gsubWhole.JSON(), "gleaf.json": gleaf.JSON()})
	cfgFiles["gen-ref"] = genRef
	x.pool.NewCfgDir("gen-ref", genRef)
	type gvar struct{ name, desc string }
	var gvars []gvar
	gadd := func(name, desc string, extra map[string]string) {
		files := gen.Merge(shipped, extra)
		cfgFiles[name] = files
		x.pool.NewCfgDir(name, files)
		gvars = append(gvars, gvar{name, desc})
	}
	for _, order := range [][]string{{"base", "A", "B", "leaf"}, {"base", "B", "A", "leaf"}, {"A", "B", "base", "leaf"}, {"B", "A", "base", "leaf"}, {"A", "base", "B", "leaf"},
		{"B", "base", "A", "leaf"}, {"leaf", "A", "B", "base"}, {"leaf", "B", "base", "A"}, {"A", "leaf", "base", "B"}} {
		extra := map[string]string{}
		for i, part := range order {
			content := map[string]string{"base": gbase.JSON(), "A": gsubA.JSON(), "B": gsubB.JSON(), "leaf": gleaf.JSON()}[part]
			extra[fmt.Sprintf("g%d_%s.json", i, strings.ToLower(part))] = content
		}
		gadd("gen-split-"+strings.Join(order, "-"), "Gsub split into a fragment with `extends` (A) and one without (B); load order "+strings.Join(order, ","), extra)
	}
	for _, order := range [][]string{{"sub", "base", "leaf"}, {"leaf", "sub", "base"}, {"leaf", "base", "sub"}} {
		extra := map[string]string{}
		for i, part := range order {
			content := map[string]string{"base": gbase.JSON(), "sub": gsubWhole.JSON(), "leaf": gleaf.JSON()}[part]
			extra[fmt.Sprintf("g%d_%s.json", i, part)] = content
		}
		gadd("gen-order-"+strings.Join(order, "-"), "one file per class, load order "+strings.Join(order, ","), extra)
	}
	genProgs := []gen.Prog{}
	for ci, cls := range []string{"Gbase", "Gsub", "Gleaf"} {
		calls := []string{"nn", "mm(7)", "mm(\"t\", \"t\")", "kk(:q)", "ll", "zork"}
		for mi, c := range calls {
			genProgs = append(genProgs, gen.Prog{Name: fmt.Sprintf("./gcfg_%d_%d.rb", ci, mi), Src: "rv = " + cls + ".new\ndbtp rv." + c + "\n"})
		}
	}
	for mi, c := range []string{"conf(a: 1, c: 2)", "conf(a: 1, d: \"s\")", "conf(d: \"s\", a: 1)", "conf(c: 2, a: 1)", "conf(a: 1)", "conv(1)", "conv(\"s\")", "conv(:q)",
		"conf(a: 1, c: 2)\ndbtp Gsub.conf(a: 1, d: \"s\")", "conv(\"s\")\ndbtp Gsub.conv(1)"} {
		genProgs = append(genProgs, gen.Prog{Name: fmt.Sprintf("./gcfg_cm_%d.rb", mi), Src: "dbtp Gsub." + c + "\n"})
	}
	x.metamorphic(func(emit func(*mItem)) {
		for _, p := range genProgs {
			argv := []string{p.Name}
			base := &engine.Case{Cfg: "gen-ref", Files: map[string]string{p.Name: p.Src}, Argv: argv}
			for _, v := range gvars {
				v := v
				p := p
				emit(&mItem{baseKey: "gen|" + p.Name, base: base,
					variant: &engine.Case{Cfg: v.name, Files: map[string]string{p.Name: p.Src}, Argv: argv},
					sig:     func(b, vo string) string { return fmt.Sprintf("cfg-%s:%s@%s", v.name, diffClass(b, vo), lastStmt(p.Src)) },
					desc:    fmt.Sprintf("%s; program %q", v.desc, p.Src)})
			}
		}
		for _, p := range progs {
			argv := []string{p.Name, "-i"}
			base := &engine.Case{Files: map[string]string{p.Name: p.Src}, Argv: argv}
			low := strings.ToLower(p.Src)
			for _, v := range variants {
				if strings.HasPrefix(v.name, "split-") && !thorough {
					// quick tier: only programs whose text mentions the class stem or that are generated
					stem := strings.Split(strings.TrimPrefix(v.name, "split-"), "-")[0]
					stem = strings.TrimPrefix(stem, "wip_")
					key := strings.ReplaceAll(stem, "_", "")
					relevant := strings.Contains(low, key) || strings.HasPrefix(p.Name, "./g_")
					switch stem {
					case "integer", "string", "array", "hash", "object", "kernel":
						relevant = true
					}
					if !relevant {
						continue
					}
				}
				v := v
				emit(&mItem{baseKey: p.Name, base: base,
					variant: &engine.Case{Cfg: v.name, Files: map[string]string{p.Name: p.Src}, Argv: argv},
					sig: func(b, vo string) string {
						return fmt.Sprintf("cfg-%s:%s@%s", v.name, diffClass(b, vo), p.Name)
					},
					desc: fmt.Sprintf("%s; program %s", v.desc, p.Name)})
			}
		}
	}, &mOpts{cfgFiles: cfgFiles})
	r.Bounds = map[string]any{"config_files": len(names), "variants": len(variants), "splittable_classes": nSplit, "programs": len(progs)}
	r.Sample(map[string]any{"variant": "ord-rev", "files": []string{"000_wip_application_record.json", "001_wip_activerecord_table.json", "…"}})
	r.Sample(map[string]any{"variant": "split-string-b-first-a-last", "files": []string{"000_string.json (second half of the methods)", "zzz_string.json (first half + constants)"}})
}

// ------------------------------------------------------------------------------------------

func c20(x *ctx) {
	r := x.run
	thorough := x.tier == "thorough"
	r.Rule = "every corpus and generated program is analysed with the shipped configuration and with one extra class file added (loaded first or last): classes with fresh names in frames Builtin / a new frame / namespaced, " +
		"with or without extends, and - per program - a class in a foreign frame that reuses the short name of a user-defined class of that program; the program never mentions the added class; output must be identical; " +
		"non-trivial = program prints records"
	shipped := gen.ShippedConfig(engine.RepoRoot)
	cfgFiles := map[string]map[string]string{}
	ret := func(t string) gen.CfgRet { return gen.CfgRet{Type: []string{t}} }
	methods := []gen.CfgMethod{
		{Name: "zork", Arguments: []gen.CfgArg{{Type: []string{"Int"}}}, ReturnType: ret("String")},
		{Name: "name", Arguments: []gen.CfgArg{}, ReturnType: ret("Int")},
		{Name: "x", Arguments: []gen.CfgArg{}, ReturnType: ret("Float")},
		{Name: "test", Arguments: []gen.CfgArg{{Type: []string{"String"}}}, ReturnType: ret("NilClass")},
		{Name: "+", Arguments: []gen.CfgArg{{Type: []string{"String"}}}, ReturnType: ret("NilClass")},
		{Name: "each", Arguments: []gen.CfgArg{}, ReturnType: ret("Self"), BlockParameters: []string{"String"}},
	}
	cmethods := []gen.CfgMethod{{Name: "new", Arguments: []gen.CfgArg{{Type: []string{"Int"}}}, ReturnType: ret("Self")}, {Name: "zork", Arguments: []gen.CfgArg{}, ReturnType: ret("Int")}}
	var props, ivars []gen.CfgProp
	for i, n := range []string{"missing", "missing_attr", "nothing", "zork", "nope", "capacity", "after", "name", "value", "port", "level", "balance", "owner", "hidden", "move", "rest"} {
		props = append(props, gen.CfgProp{Name: n, Type: []string{[]string{"Int", "String"}[i%2]}, Access: []string{"reader", "accessor"}[i%2]})
	}
	for i, n := range []string{"v", "w", "q", "x", "raw", "level", "name", "r", "z", "balance", "owner"} {
		ivars = append(ivars, gen.CfgProp{Name: n, Type: []string{[]string{"Int", "String", "Float"}[i%3]}})
	}
	extras := []struct {
		name string
		cls  gen.CfgClass
	}{
		{"builtin-fresh", gen.CfgClass{Frame: "Builtin", Class: "Zzq", InstanceMethods: methods, ClassMethods: cmethods}},
		{"frame-fresh", gen.CfgClass{Frame: "Xfr", Class: "Zzq", InstanceMethods: methods, ClassMethods: cmethods}},
		{"builtin-extends-string", gen.CfgClass{Frame: "Builtin", Class: "Zzq", Extends: []string{"String"}, InstanceMethods: methods, ClassMethods: cmethods}},
		{"namespaced", gen.CfgClass{Frame: "Builtin", Class: "Xns::Zzq", InstanceMethods: methods, ClassMethods: cmethods}},
		{"frame-nested", gen.CfgClass{Frame: "Xfr::Inner", Class: "Zzq", InstanceMethods: methods, ClassMethods: cmethods,
			Constants: []gen.CfgConst{{Name: "ZZQ_CONST", ReturnType: ret("Int")}}}},
		// instance properties / instance variables named like methods and variables the programs use on their own
		// classes (also as undefined calls and unassigned reads)
		{"frame-props", gen.CfgClass{Frame: "Xfr", Class: "Zzq", InstanceMethods: methods, ClassMethods: cmethods, InstanceProperties: props, InstanceVariables: ivars}},
		{"builtin-props", gen.CfgClass{Frame: "Builtin", Class: "Zzq", InstanceMethods: methods, ClassMethods: cmethods, InstanceProperties: props, InstanceVariables: ivars}},
		// classes that extend a stock class and redeclare its keyword-argument methods with other keyword types
		{"extends-dir-keywords", gen.CfgClass{Frame: "Xfr", Class: "Zzq", Extends: []string{"Builtin::Dir"}, InstanceMethods: methods, ClassMethods: []gen.CfgMethod{
			{Name: "glob", Arguments: []gen.CfgArg{{Type: []string{"String"}}, {Key: "base:", Type: []string{"Int"}}}, ReturnType: ret("Int")},
			{Name: "chdir", Arguments: []gen.CfgArg{{Type: []string{"Int"}}}, ReturnType: ret("Int")}}}},
		// conditional-return methods whose union parameter has more / fewer alternatives than the return type
		{"conditional-returns", gen.CfgClass{Frame: "Xfr", Class: "Zzq", ClassMethods: cmethods, InstanceMethods: append(append([]gen.CfgMethod{}, methods...),
			gen.CfgMethod{Name: "pick", Arguments: []gen.CfgArg{{Type: []string{"Int", "String", "Symbol"}}}, ReturnType: gen.CfgRet{Type: []string{"Int", "String"}, IsConditional: true}},
			gen.CfgMethod{Name: "pack", Arguments: []gen.CfgArg{{Type: []string{"Int", "String"}}, {Type: []string{"Float"}}}, ReturnType: gen.CfgRet{Type: []string{"Int", "String", "Symbol", "Float"}, IsConditional: true}},
			gen.CfgMethod{Name: "pock", Arguments: []gen.CfgArg{}, ReturnType: gen.CfgRet{Type: []string{"Int", "String"}, IsConditional: true}})}},
		{"extends-test-keywords", gen.CfgClass{Frame: "Builtin", Class: "Zzq", Extends: []string{"Test"}, InstanceMethods: methods, ClassMethods: []gen.CfgMethod{
			{Name: "keyword_json_test", Arguments: []gen.CfgArg{{Key: "name:", Type: []string{"String"}}}, ReturnType: ret("String")}}}},
	}
	type variant struct{ cfg, desc string }
	var fixed []variant
	for _, e := range extras {
		for _, pos := range []string{"zzz", "000"} {
			if !thorough && pos == "000" && e.name != "builtin-fresh" && !strings.HasSuffix(e.name, "-props") {
				continue
			}
			name := "extra-" + e.name + "-" + pos
			files := gen.Merge(shipped, map[string]string{pos + "_extra.json": e.cls.JSON()})
			cfgFiles[name] = files
			x.pool.NewCfgDir(name, files)
			fixed = append(fixed, variant{name, fmt.Sprintf("extra class %s::%s (%s) loaded %s", e.cls.Frame, e.cls.Class, e.name, map[string]string{"zzz": "last", "000": "first"}[pos])})
		}
	}
	// classes of a foreign frame that reuse the short names of configured classes and redeclare their most
	// common methods with other parameter lists (loaded first and last)
	{
		u := gen.CfgArg{Type: []string{"Untyped"}}
		shadow := func(cls string, names ...string) gen.CfgClass {
			c := gen.CfgClass{Frame: "Xfr", Class: cls, ClassMethods: []gen.CfgMethod{{Name: "new", Arguments: []gen.CfgArg{u, u, u}, ReturnType: ret("Self")}}}
			for _, n := range names {
				c.InstanceMethods = append(c.InstanceMethods, gen.CfgMethod{Name: n, Arguments: []gen.CfgArg{u, u, u}, ReturnType: ret("Symbol")})
			}
			return c
		}
		shadows := map[string]gen.CfgClass{
			"string":  shadow("String", "length", "upcase", "to_s", "+", "split", "size"),
			"array":   shadow("Array", "first", "push", "length", "size", "each", "to_s"),
			"integer": shadow("Integer", "to_s", "+", "zero?", "times"),
			"hash":    shadow("Hash", "keys", "size", "each", "merge"),
			"object":  shadow("Object", "to_s", "inspect", "nil?", "is_a?"),
		}
		for _, pos := range []string{"zzz", "000"} {
			extra := map[string]string{}
			for n, c := range shadows {
				extra[pos+"_shadow_"+n+".json"] = c.JSON()
			}
			name := "extra-shadows-configured-" + pos
			files := gen.Merge(shipped, extra)
			cfgFiles[name] = files
			x.pool.NewCfgDir(name, files)
			fixed = append(fixed, variant{name, "classes Xfr::String/Array/Integer/Hash/Object redeclaring common methods with three parameters, loaded " + map[string]string{"zzz": "last", "000": "first"}[pos]})
		}
	}
	progs := progSet(x)
	classDef := regexp.MustCompile(`(?m)^\s*class\s+([A-Z][A-Za-z0-9]*)`)
	defRe := regexp.MustCompile(`(?m)^\s*def\s+(?:self\.)?([a-z_][A-Za-z0-9_?!]*)`)
	callRe := regexp.MustCompile(`[a-z0-9_)\]]\.([a-z_][a-z0-9_]*)\b`)
	nCollide := 0
	x.metamorphic(func(emit func(*mItem)) {
		for pi, p := range progs {
			if strings.Contains(p.Src, "Zzq") || strings.Contains(p.Src, "Xfr") || strings.Contains(p.Src, "Xns") || strings.Contains(p.Src, "ZZQ") {
				continue
			}
			argv := []string{p.Name, "-i"}
			base := &engine.Case{Files: map[string]string{p.Name: p.Src}, Argv: argv}
			for _, v := range fixed {
				v := v
				emit(&mItem{baseKey: p.Name, base: base,
					variant: &engine.Case{Cfg: v.cfg, Files: map[string]string{p.Name: p.Src}, Argv: argv},
					sig:     func(b, vo string) string { return fmt.Sprintf("%s:%s@%s", v.cfg, diffClass(b, vo), p.Name) },
					desc:    v.desc + "; program " + p.Name})
			}
			// per-program collision: a class in a foreign frame that shares its short name with a user class
			ms := classDef.FindAllStringSubmatch(p.Src, -1)
			if len(ms) == 0 {
				continue
			}
			seen := map[string]bool{}
			for _, m := range ms {
				cn := m[1]
				if seen[cn] {
					continue
				}
				seen[cn] = true
				// methods named like the program's own methods, with different signatures
				var ims []gen.CfgMethod
				for _, d := range defRe.FindAllStringSubmatch(p.Src, -1) {
					ims = append(ims, gen.CfgMethod{Name: d[1], Arguments: []gen.CfgArg{{Type: []string{"Symbol"}}, {Type: []string{"Symbol"}}, {Type: []string{"Symbol"}}}, ReturnType: ret("Symbol")})
					if len(ims) >= 6 {
						break
					}
				}
				ims = append(ims, methods[0])
				// ... and like the methods the program calls (some of them undefined for its own classes)
				declared := map[string]bool{}
				for _, m := range ims {
					declared[m.Name] = true
				}
				for _, c := range callRe.FindAllStringSubmatch(p.Src, -1) {
					if !declared[c[1]] && c[1] != "new" && len(ims) < 20 {
						declared[c[1]] = true
						ims = append(ims, gen.CfgMethod{Name: c[1], Arguments: []gen.CfgArg{}, ReturnType: ret("Symbol")})
					}
				}
				// the colliding class lives in a foreign frame: a plain one, and one nested under Builtin
				frames := []string{"Xfr", "Builtin::Xfr"}
				// a user class that exists only inside a module is not the Builtin class of the same short name
				// (instance methods only: class-method calls are resolved from the caller's frame, known finding C27-F1)
				nsOnly := regexp.MustCompile(`(?m)^\s+class\s+`+cn+`\b`).MatchString(p.Src) && !regexp.MustCompile(`(?m)^class\s+`+cn+`\b`).MatchString(p.Src) &&
					regexp.MustCompile(`(?m)^module\s`).MatchString(p.Src) && !strings.Contains(p.Src, "< "+cn)
				if nsOnly {
					frames = append(frames, "Builtin")
				}
				for fi, frame := range frames {
					cls := gen.CfgClass{Frame: frame, Class: cn, InstanceMethods: ims, ClassMethods: cmethods}
					if frame == "Builtin" {
						cls.ClassMethods = nil
					}
					name := fmt.Sprintf("collide-%d-%s-%d", pi, cn, fi)
					files := gen.Merge(shipped, map[string]string{"zzz_extra.json": cls.JSON()})
					cfgFiles[name] = files
					x.pool.NewCfgDir(name, files)
					nCollide++
					frame := frame
					emit(&mItem{baseKey: p.Name, base: base,
						variant: &engine.Case{Cfg: name, Files: map[string]string{p.Name: p.Src}, Argv: argv},
						sig: func(b, vo string) string {
							return fmt.Sprintf("extra-collide-short-name:%s:%s@%s:%s", frame, diffClass(b, vo), p.Name, cn)
						},
						desc: fmt.Sprintf("extra configured class %s::%s shares its short name with user class %s of %s", frame, cn, cn, p.Name)})
				}
			}
		}
	}, &mOpts{cfgFiles: cfgFiles})
	r.Bounds = map[string]any{"programs": len(progs), "fixed_extra_variants": len(fixed), "short_name_collision_variants": nCollide}
	r.Sample(map[string]any{"extra_file": "zzz_extra.json", "class": extras[0].cls})
	r.Sample(map[string]any{"extra_file": "zzz_extra.json", "collision": "frame Xfr, class named like the program's own `class Hoge`"})
}
