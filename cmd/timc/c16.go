package main

import (
	"fmt"
	"os"
	"sort"
	"strings"

	"verif/internal/engine"
)

func init() { register("C16", c16) }

type c16prog struct {
	src     string
	row     int    // the call row
	expDiag bool   // a diagnostic must be on the call row
	expType string // expected dbtp type on the probe row when no diagnostic is expected ("" = not probed)
	feat    string
}

func c16(x *ctx) {
	r := x.run
	thorough := x.tier == "thorough"
	r.Rule = "generated hierarchies: superclass chains of depth 1-3 (thorough: 4), a method defined at each level under each visibility (public/private/protected), a module included or extended at each level, a class method defined with `def self.` or `class << self` at each level, " +
		"initialize with 0-2 parameters at each level; call forms: explicit receiver from outside, from a subclass method, from an unrelated class, implicit receiver inside a method, class-method call, instance method on the class, class method on an instance, new with 0-3 arguments, " +
		"a following class after a private section; class names plain and colliding with configured short names of other frames (Base, Relation, Table). One call per program. Reference = Ruby method resolution order + visibility: " +
		"undefined/invisible => a diagnostic on the call row, defined and visible => none and the probe prints the method body's type. non-trivial = all"
	r.Assumptions = []string{"one call per program so that recovery after an error cannot interfere", "programs run under the full shipped configuration (collision names) and the core configuration"}
	nameSets := [][]string{{"Lvone", "Lvtwo", "Lvthree", "Lvfour"}, {"Base", "Relation", "Table", "Lvfour"}}
	maxDepth := 3
	if thorough {
		maxDepth = 4
	}
	var progs []c16prog
	add := func(src string, row int, expDiag bool, expType, feat string) {
		progs = append(progs, c16prog{src, row, expDiag, expType, feat})
	}
	// builds `class A; body; end; class B < A ...` and returns source plus number of lines
	chain := func(names []string, d int, bodies map[int]string) string {
		var sb strings.Builder
		for lv := 1; lv <= d; lv++ {
			head := "class " + names[lv-1]
			if lv > 1 {
				head += " < " + names[lv-2]
			}
			sb.WriteString(head + "\n")
			if b, ok := bodies[lv]; ok {
				sb.WriteString(b)
			}
			sb.WriteString("end\n")
		}
		return sb.String()
	}
	lines := func(s string) int { return strings.Count(s, "\n") }
	for ni, names := range nameSets {
		cfg := "core"
		if ni == 1 {
			cfg = "" // default = full shipped configuration
		}
		_ = cfg
		for d := 1; d <= maxDepth; d++ {
			leaf := names[d-1]
			for k := 1; k <= d; k++ {
				// --- instance method at level k under each visibility
				for _, vis := range []string{"public", "private", "protected"} {
					body := ""
					if vis != "public" {
						body += "  " + vis + "\n\n"
					}
					body += "  def target\n    1.5\n  end\n"
					defs := chain(names, d, map[int]string{k: body})
					tag := fmt.Sprintf("names=%d:d=%d:k=%d:%s", ni, d, k, vis)
					// (1) explicit receiver from outside
					src := defs + "o = " + leaf + ".new\ndbtp o.target\n"
					add(src, lines(src), vis != "public", map[bool]string{true: "Float"}[vis == "public"], "explicit-outside:"+tag)
					// (2) implicit receiver inside a leaf method (all visibilities fine)
					// the public caller is defined before the visibility section when both live in the leaf
					callerDef := "  def caller_m\n    target\n  end\n"
					src = chain(names, d, map[int]string{k: body, d: callerDef + map[bool]string{true: body, false: ""}[k == d]}) + "o = " + leaf + ".new\ndbtp o.caller_m\n"
					add(src, lines(src)-0, false, "Float", "implicit-inside:"+tag)
					// (3) instance method called on the class
					src = defs + "dbtp " + leaf + ".target\n"
					add(src, lines(src), true, "", "instance-method-on-class:"+tag)
					// (4) undefined method, explicit receiver
					src = defs + "o = " + leaf + ".new\ndbtp o.nothing_like_it\n"
					add(src, lines(src), true, "", "undefined-explicit:"+tag)
					// (5) explicit receiver from an unrelated class's method
					src = defs + "class Other\n  def poke(x)\n    x.target\n  end\nend\nq = Other.new\nq.poke(" + leaf + ".new)\n"
					if vis != "public" {
						// the diagnostic belongs to the row of x.target inside Other#poke
						add(src, lines(defs)+3, true, "", "explicit-from-unrelated-class:"+tag)
					}
					// (6) protected: explicit receiver inside a subclass method is allowed
					if vis == "protected" && k < d {
						src = chain(names, d, map[int]string{k: body, d: "  def peer(other)\n    other.target\n  end\n"}) + "a = " + leaf + ".new\nb = " + leaf + ".new\ndbtp a.peer(b)\n"
						add(src, lines(src), false, "Float", "protected-from-subclass:"+tag)
					}
					// (7) visibility does not leak into the next class
					if vis != "public" && k == d {
						src = defs + "class After\n  def open_m\n    :sym\n  end\nend\nz = After.new\ndbtp z.open_m\n"
						add(src, lines(src), false, "Symbol", "no-visibility-leak:"+tag)
					}
				}
				// --- class methods
				for _, form := range []string{"def-self", "class-self"} {
					body := "  def self.build\n    \"s\"\n  end\n"
					if form == "class-self" {
						body = "  class << self\n    def build\n      \"s\"\n    end\n  end\n"
					}
					defs := chain(names, d, map[int]string{k: body})
					tag := fmt.Sprintf("names=%d:d=%d:k=%d:%s", ni, d, k, form)
					src := defs + "dbtp " + leaf + ".build\n"
					add(src, lines(src), false, "String", "class-method:"+tag)
					src = defs + "o = " + leaf + ".new\ndbtp o.build\n"
					add(src, lines(src), true, "", "class-method-on-instance:"+tag)
					src = defs + "dbtp " + leaf + ".nothing_like_it\n"
					add(src, lines(src), true, "", "undefined-class-method:"+tag)
				}
				// --- modules
				for _, how := range []string{"include", "extend", "include+extend", "extend+include"} {
					mod := "module Helpmod\n  def helped\n    :sym\n  end\nend\n"
					stmts := ""
					for _, h := range strings.Split(how, "+") {
						stmts += "  " + h + " Helpmod\n"
					}
					inst, stat := strings.Contains(how, "include"), strings.Contains(how, "extend")
					defs := mod + chain(names, d, map[int]string{k: stmts})
					tag := fmt.Sprintf("names=%d:d=%d:k=%d:%s", ni, d, k, how)
					src := defs + "o = " + leaf + ".new\ndbtp o.helped\n"
					add(src, lines(src), !inst, map[bool]string{true: "Symbol"}[inst], "module-instance-call:"+tag)
					src = defs + "dbtp " + leaf + ".helped\n"
					add(src, lines(src), !stat, map[bool]string{true: "Symbol"}[stat], "module-class-call:"+tag)
				}
				// --- initialize arity
				for np := 0; np <= 2; np++ {
					params := []string{"", "(a)", "(a, b)"}[np]
					defs := chain(names, d, map[int]string{k: "  def initialize" + params + "\n    @z = 1\n  end\n"})
					for na := 0; na <= 3; na++ {
						args := []string{"", "(1)", "(1, 2)", "(1, 2, 3)"}[na]
						tag := fmt.Sprintf("names=%d:d=%d:k=%d:params=%d:args=%d", ni, d, k, np, na)
						src := defs + "o = " + leaf + ".new" + args + "\n"
						add(src, lines(src), na != np, "", "new-arity:"+tag)
					}
				}
			}
		}
	}
	// --- nested namespaces: a class inside 1-3 nested modules whose unqualified superclass (or included
	// module) is defined at each enclosing level (0 = top level); optionally a same-named decoy at top level
	// that lacks the method. The call is written inside a method of another class of the innermost namespace.
	nsNames := []string{"Nsa", "Nsb", "Nsc"}
	for nd := 1; nd <= 3; nd++ {
		for bl := 0; bl <= nd; bl++ {
			for _, kind := range []string{"superclass", "include"} {
				for _, decoy := range []bool{false, true} {
					if decoy && bl == 0 {
						continue
					}
					for _, call := range []string{"defined", "decoy-only"} {
						if call == "decoy-only" && !decoy {
							continue
						}
						var sb strings.Builder
						pad := func(n int) string { return strings.Repeat("  ", n) }
						baseDef := func(ind int) {
							if kind == "superclass" {
								sb.WriteString(pad(ind) + "class Pbase\n" + pad(ind+1) + "def target\n" + pad(ind+2) + "1.5\n" + pad(ind+1) + "end\n" + pad(ind) + "end\n")
							} else {
								sb.WriteString(pad(ind) + "module Pbase\n" + pad(ind+1) + "def target\n" + pad(ind+2) + "1.5\n" + pad(ind+1) + "end\n" + pad(ind) + "end\n")
							}
						}
						if decoy {
							kw := map[string]string{"superclass": "class", "include": "module"}[kind]
							sb.WriteString(kw + " Pbase\n  def decoy_only\n    :sym\n  end\nend\n")
						}
						if bl == 0 {
							baseDef(0)
						}
						for lv := 1; lv <= nd; lv++ {
							sb.WriteString(pad(lv-1) + "module " + nsNames[lv-1] + "\n")
							if bl == lv {
								baseDef(lv)
							}
						}
						if kind == "superclass" {
							sb.WriteString(pad(nd) + "class Dsub < Pbase\n" + pad(nd) + "end\n")
						} else {
							sb.WriteString(pad(nd) + "class Dsub\n" + pad(nd+1) + "include Pbase\n" + pad(nd) + "end\n")
						}
						meth := map[string]string{"defined": "target", "decoy-only": "decoy_only"}[call]
						sb.WriteString(pad(nd) + "class Zuser\n" + pad(nd+1) + "def go\n" + pad(nd+2) + "dbtp Dsub.new." + meth + "\n")
						row := lines(sb.String())
						sb.WriteString(pad(nd+1) + "end\n" + pad(nd) + "end\n")
						for lv := nd; lv >= 1; lv-- {
							sb.WriteString(pad(lv-1) + "end\n")
						}
						sb.WriteString(strings.Join(nsNames[:nd], "::") + "::Zuser.new.go\n")
						tag := fmt.Sprintf("names=0:ns-depth=%d:base-level=%d:%s:decoy=%v:%s", nd, bl, kind, decoy, call)
						if call == "defined" {
							add(sb.String(), row, false, "Float", "namespaced-ancestor:"+tag)
						} else {
							add(sb.String(), row, true, "", "namespaced-ancestor:"+tag)
						}
					}
				}
			}
		}
	}
	// --- a visibility section that continues after a `class << self` block: the block has no section keyword,
	// the same keyword, or the other one; the method defined after the block is still private / protected and an
	// explicit-receiver call from outside must be reported; a public method before the section must not
	for _, vis := range []string{"private", "protected"} {
		for _, inner := range []string{"none", "same", "other", "public"} {
			for _, container := range []string{"class", "included-module"} {
				innerKw := map[string]string{"none": "", "same": vis, "other": map[string]string{"private": "protected", "protected": "private"}[vis], "public": "public"}[inner]
				body := "  def open_m\n    1.5\n  end\n\n  " + vis + "\n\n  def hid_a\n    1\n  end\n\n  class << self\n"
				if innerKw != "" {
					body += "    " + innerKw + "\n\n"
				}
				body += "    def cm\n      1\n    end\n  end\n\n  def hid_b\n    2\n  end\n"
				var defs string
				if container == "class" {
					defs = "class Lvone\n" + body + "end\n"
				} else {
					defs = "module Lvmod\n" + body + "end\nclass Lvone\n  include Lvmod\nend\n"
				}
				tag := fmt.Sprintf("names=0:%s:inner=%s:%s", vis, inner, container)
				src := defs + "o = Lvone.new\ndbtp o.hid_b\n"
				add(src, lines(src), true, "", "section-after-class-self:"+tag)
				src = defs + "o = Lvone.new\ndbtp o.hid_a\n"
				add(src, lines(src), true, "", "section-before-class-self:"+tag)
				src = defs + "o = Lvone.new\ndbtp o.open_m\n"
				add(src, lines(src), false, "Float", "public-before-section:"+tag)
			}
		}
	}
	// --- a protected / private method defined in a module that a class includes: callable on another instance
	// from a method of the including class and of its descendants (protected), reported from outside
	for _, vis := range []string{"protected", "private"} {
		for d := 1; d <= 3; d++ {
			mod := "module Pmod\n  " + vis + "\n\n  def target\n    1.5\n  end\nend\n"
			names := []string{"Lvone", "Lvtwo", "Lvthree"}
			defs := mod
			for lv := 1; lv <= d; lv++ {
				head := "class " + names[lv-1]
				if lv > 1 {
					head += " < " + names[lv-2]
				}
				defs += head + "\n"
				if lv == 1 {
					defs += "  include Pmod\n"
				}
				if lv == d {
					defs += "  def peer(other)\n    other.target\n  end\n\n  def own\n    target\n  end\n"
				}
				defs += "end\n"
			}
			leaf := names[d-1]
			tag := fmt.Sprintf("names=0:d=%d:%s", d, vis)
			src := defs + "a = " + leaf + ".new\nb = " + leaf + ".new\ndbtp a.peer(b)\n"
			if vis == "protected" {
				add(src, lines(src), false, "Float", "module-protected-from-includer:"+tag)
			}
			src = defs + "a = " + leaf + ".new\ndbtp a.own\n"
			add(src, lines(src), false, "Float", "module-method-implicit:"+tag)
			src = defs + "a = " + leaf + ".new\ndbtp a.target\n"
			add(src, lines(src), true, "", "module-method-from-outside:"+tag)
		}
	}
	cases := make([]*engine.Case, len(progs))
	for i, p := range progs {
		cfg := "core"
		if strings.Contains(p.feat, "names=1") {
			cfg = ""
		}
		cases[i] = &engine.Case{Cfg: cfg, Files: map[string]string{"t.rb": p.src}, Argv: []string{"t.rb"}}
	}
	res := x.pool.RunAll(cases)
	type viol struct {
		idx  int
		desc string
	}
	bySig := map[string][]viol{}
	var recs []execRec
	for i, rr := range res {
		r.Evaluations++
		r.Transitions++
		r.Nontrivial++
		p := progs[i]
		if rr.Abnormal() {
			s := "abnormal:" + outOf(rr)
			bySig[s] = append(bySig[s], viol{i, outOf(rr)})
			continue
		}
		r.Outcome(outcomeShape(rr.Stdout, "t.rb"))
		if i%47 == 0 {
			recs = append(recs, execRec{cfgName(cases[i]), cases[i].Files, cases[i].Argv, rr.Stdout})
		}
		var onRow []string
		for _, l := range strings.Split(strings.TrimSuffix(rr.Stdout, "\n"), "\n") {
			q := strings.SplitN(l, ":::", 3)
			if len(q) == 3 && q[1] == fmt.Sprint(p.row) {
				onRow = append(onRow, q[2])
			}
		}
		hasProbe := strings.Contains(lastStmt(p.src), "dbtp ") && p.row == strings.Count(p.src, "\n")
		if sl := strings.Split(p.src, "\n"); strings.HasPrefix(p.feat, "namespaced-ancestor:") && p.row >= 1 && p.row <= len(sl) {
			hasProbe = strings.Contains(sl[p.row-1], "dbtp ")
		}
		nDiag := len(onRow)
		probeT := ""
		if hasProbe && len(onRow) > 0 {
			nDiag--
			probeT = canonType(onRow[len(onRow)-1])
		}
		// coarse signature: call form + (depth, level relation, visibility/form) without the name set
		f := strings.Split(p.feat, ":")
		coarse := f[0] + ":" + strings.Join(f[2:], ":")
		switch {
		case p.expDiag && nDiag == 0:
			s := "c16:missing-diagnostic:" + coarse
			bySig[s] = append(bySig[s], viol{i, fmt.Sprintf("%s: no diagnostic on row %d; output %q", p.feat, p.row, strings.TrimSpace(rr.Stdout))})
		case !p.expDiag && nDiag > 0:
			s := "c16:false-diagnostic:" + coarse
			bySig[s] = append(bySig[s], viol{i, fmt.Sprintf("%s: unexpected diagnostic on row %d: %q", p.feat, p.row, onRow)})
		case !p.expDiag && p.expType != "" && probeT != p.expType:
			s := "c16:wrong-type:" + coarse
			bySig[s] = append(bySig[s], viol{i, fmt.Sprintf("%s: probe prints %q, body type is %q", p.feat, probeT, p.expType)})
		}
	}
	r.States = r.Evaluations
	r.Extra["mismatching_signatures"] = len(bySig)
	if dbg := os.Getenv("VERIF_DEBUG_SIGS"); dbg != "" {
		var sb strings.Builder
		for s, vs := range bySig {
			fmt.Fprintf(&sb, "%d\t%s\t%s\n", len(vs), s, vs[0].desc)
		}
		os.WriteFile(dbg, []byte(sb.String()), 0o644)
	}
	var sigs []string
	for s := range bySig {
		sigs = append(sigs, s)
	}
	sort.Strings(sigs)
	budget := 60
	for _, s := range sigs {
		vs := bySig[s]
		v := vs[0]
		if r.Known(s) == nil {
			if budget <= 0 {
				r.Unconfirmed = append(r.Unconfirmed, s+" (confirmation budget exhausted)")
				continue
			}
			budget--
			rr := x.realStable(cfgName(cases[v.idx]), cases[v.idx].Files, cases[v.idx].Argv)
			if rr.Stdout != res[v.idx].Stdout {
				r.Unconfirmed = append(r.Unconfirmed, s+" (real binary prints something else)")
				continue
			}
			r.Validated++
		}
		for i := range vs {
			if i == 0 {
				r.Report(s, fmt.Sprintf("%s (%d programs): %s", s, len(vs), v.desc),
					ReplayDoc{Cfg: cfgName(cases[v.idx]), Files: cases[v.idx].Files, Argv: cases[v.idx].Argv, Observed: head(res[v.idx].Stdout, 1200), Expected: v.desc,
						Note: "cfg `core` = the 21 core files of /repo/test/.ti-config; `default` = all of it"})
			} else {
				r.Report(s, "", nil)
			}
		}
	}
	x.validateAgainstReal(recs, 30)
	r.Bounds = map[string]any{"programs": len(progs), "max_depth": maxDepth, "name_sets": nameSets}
	r.Sample(map[string]any{"program": progs[len(progs)/2].src, "features": progs[len(progs)/2].feat, "expect_diagnostic_on_row": progs[len(progs)/2].row})
	r.Sample(map[string]any{"program": progs[3].src, "features": progs[3].feat})
}
