package main

import (
	"encoding/json"
	"fmt"
	"strings"

	"verif/internal/engine"
	"verif/internal/gen"
)

func init() { register("C18", c18) }

// topLevelBoundaries returns the line counts k (1 <= k < n) such that the boundary after line k is a
// top-level statement boundary: the scanner says it is a statement boundary, and both the last
// non-blank line before it and the first non-blank line after it start in column 0 and the latter is
// not a block closer / continuation keyword.
func topLevelBoundaries(lo *gen.Layout) []int {
	var out []int
	n := len(lo.Lines)
	closer := map[string]bool{"end": true, "else": true, "elsif": true, "when": true, "in": true, "rescue": true, "ensure": true, "}": true, "]": true, ")": true, "then": true}
	opener := map[string]bool{"def": true, "class": true, "module": true, "if": true, "unless": true, "while": true, "until": true, "case": true, "begin": true, "for": true}
	// keyword block depth after each line (comment lines ignored); both this count and the
	// indentation rule below must say "top level"
	depthAfter := make([]int, n)
	d := 0
	blankOrComment := func(i int) bool {
		t := strings.TrimSpace(lo.Lines[i].Text)
		return t == "" || strings.HasPrefix(t, "#")
	}
	for i := 0; i < n; i++ {
		if !blankOrComment(i) {
			t := strings.TrimSpace(lo.Lines[i].Text)
			if c := strings.Index(t, " #"); c >= 0 {
				t = strings.TrimSpace(t[:c])
			}
			fw := lo.Lines[i].FirstWord
			oneLiner := strings.HasSuffix(t, " end") || strings.Contains(t, " end ") || strings.Contains(t, ";end") || strings.Contains(t, "; end")
			if opener[fw] && !oneLiner {
				d++
			} else if (strings.HasSuffix(t, " do") || strings.Contains(t, " do |")) && !oneLiner {
				d++
			} else if strings.Contains(t, "= if ") || strings.Contains(t, "= case ") || strings.Contains(t, "= begin") || strings.Contains(t, "= unless ") || strings.Contains(t, "= while ") {
				if !oneLiner {
					d++
				}
			}
			if fw == "end" || strings.HasPrefix(fw, "end.") || strings.HasPrefix(fw, "end)") {
				d--
			}
		}
		depthAfter[i] = d
	}
	for k := 1; k < n; k++ {
		if !lo.Lines[k-1].SafeAfter || depthAfter[k-1] != 0 {
			continue
		}
		// previous / next line that is neither blank nor a comment
		pi := k - 1
		for pi >= 0 && blankOrComment(pi) {
			pi--
		}
		ni := k
		for ni < n && blankOrComment(ni) {
			ni++
		}
		if pi < 0 || ni >= n {
			continue
		}
		pl, nl := lo.Lines[pi].Text, lo.Lines[ni].Text
		if pl[0] == ' ' || pl[0] == '\t' || nl[0] == ' ' || nl[0] == '\t' {
			continue
		}
		if closer[lo.Lines[ni].FirstWord] {
			continue
		}
		pw := lo.Lines[pi].FirstWord
		if opener[pw] && !strings.Contains(pl, " end") && !strings.Contains(pl, "=") {
			continue // a block opener in column 0 whose body follows
		}
		if strings.HasSuffix(strings.TrimSpace(pl), " do") || strings.Contains(pl, " do |") {
			continue
		}
		if strings.HasPrefix(pw, "#") {
			// a comment line: fine
		}
		out = append(out, k)
	}
	return out
}

// restrictRebase keeps the records of `file` whose row is > k and subtracts k from their rows.
func restrictRebase(out, file string, k int) string {
	if out == "" {
		return ""
	}
	var keep []string
	for _, l := range strings.Split(strings.TrimSuffix(out, "\n"), "\n") {
		pfx, rest := "", l
		if strings.HasPrefix(rest, "@") {
			pfx, rest = "@", rest[1:]
		}
		if !strings.HasPrefix(rest, file+":::") {
			keep = append(keep, l)
			continue
		}
		rest2 := rest[len(file)+3:]
		j := strings.Index(rest2, ":::")
		if j <= 0 {
			keep = append(keep, l)
			continue
		}
		row := 0
		ok := true
		for _, c := range rest2[:j] {
			if c < '0' || c > '9' {
				ok = false
				break
			}
			row = row*10 + int(c-'0')
		}
		if !ok {
			keep = append(keep, l)
			continue
		}
		if row <= k {
			continue
		}
		keep = append(keep, fmt.Sprintf("%s%s:::%d%s", pfx, file, row-k, rest2[j:]))
	}
	if len(keep) == 0 {
		return ""
	}
	return strings.Join(keep, "\n") + "\n"
}

func c18(x *ctx) {
	r := x.run
	thorough := x.tier == "thorough"
	r.Rule = "every corpus and generated program is split at every top-level statement boundary into a preload file (generated programs of at most 30 lines and, in the thorough tier, every program: also every pair of boundaries -> two preload files; small generated programs: triples -> three) and a target; " +
		"preload files are listed in an order that is not the lexical order of their names (pz_1.rb, py_2.rb, px_3.rb); " +
		"ti's output for the target with .ti-loader.json must equal the output for the whole program restricted to the target's rows (rebased), and no record may name a preload file; " +
		"non-trivial = the whole program prints records"
	r.Assumptions = []string{"top-level boundaries are recognised by column-0 indentation of neighbouring lines (corpus is conventionally indented)"}
	progs := progSet(x)
	nSplits := 0
	x.metamorphic(func(emit func(*mItem)) {
		for _, p := range progs {
			lo := gen.Scan(p.Src)
			if lo.Refused || lo.Heredocs > 0 {
				continue
			}
			bs := topLevelBoundaries(lo)
			if len(bs) == 0 {
				continue
			}
			lines := make([]string, len(lo.Lines))
			for i, l := range lo.Lines {
				lines[i] = l.Text
			}
			join := func(a, b int) string { return strings.Join(lines[a:b], "\n") + "\n" }
			argv := []string{p.Name, "-i"}
			base := &engine.Case{Files: map[string]string{p.Name: p.Src}, Argv: argv}
			file := p.Name
			type split struct{ cuts []int }
			var splits []split
			for _, k := range bs {
				splits = append(splits, split{[]int{k}})
			}
			smallGenerated := strings.HasPrefix(p.Name, "./g_") && len(lines) <= 30
			if thorough || smallGenerated {
				for i := 0; i < len(bs); i++ {
					for j := i + 1; j < len(bs); j++ {
						splits = append(splits, split{[]int{bs[i], bs[j]}})
						if smallGenerated {
							for l := j + 1; l < len(bs); l++ {
								if thorough || (i+j+l)%2 == 0 {
									splits = append(splits, split{[]int{bs[i], bs[j], bs[l]}})
								}
							}
						}
					}
				}
			}
			for _, sp := range splits {
				nSplits++
				k := sp.cuts[len(sp.cuts)-1]
				files := map[string]string{p.Name: join(k, len(lines))}
				var pre []string
				prev := 0
				for i, c := range sp.cuts {
					// listed order is deliberately not the lexical order of the names
					name := fmt.Sprintf("p%c_%d.rb", 'z'-rune(i), i+1)
					files[name] = join(prev, c)
					pre = append(pre, name)
					prev = c
				}
				lj, _ := json.Marshal(map[string]any{"preload": pre})
				files[".ti-loader.json"] = string(lj)
				cuts := sp.cuts
				emit(&mItem{baseKey: p.Name, base: base,
					variant: &engine.Case{Files: files, Argv: argv},
					expect:  func(b string) string { return restrictRebase(b, file, k) },
					sig: func(b, v string) string {
						cl := diffClass(restrictRebase(b, file, k), v)
						if strings.Contains(v, "pz_1.rb") || strings.Contains(v, "py_2.rb") || strings.Contains(v, "px_3.rb") {
							cl = "names-preload-file"
						}
						return fmt.Sprintf("preload:%d-files:%s@%s:%v", len(cuts), cl, file, cuts)
					},
					desc: fmt.Sprintf("%s split after line(s) %v into preload file(s) + target", p.Name, cuts)})
			}
		}
	}, nil)
	r.Bounds = map[string]any{"programs": len(progs), "splits": nSplits, "max_preload_files": map[bool]int{false: 1, true: 2}[thorough]}
	r.Sample(map[string]any{"program": "./g_def_0.rb", "split_after_line": 5, "files": []string{"pre1.rb", "./g_def_0.rb", ".ti-loader.json"}})
}
