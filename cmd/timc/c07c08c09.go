package main

import (
	"fmt"
	"os"
	"regexp"
	"sort"
	"strings"

	"verif/internal/engine"
	"verif/internal/gen"
	"verif/internal/ref"
)

func init() {
	register("C07", func(x *ctx) { builtinCalls(x, "C07") })
	register("C08", func(x *ctx) { builtinCalls(x, "C08") })
	register("C09", func(x *ctx) { builtinCalls(x, "C09") })
}

type recvKind struct {
	class string
	lit   string
	elems []string
}

var bcReceivers = []recvKind{
	{"Integer", "1", nil}, {"String", "\"s\"", nil}, {"Float", "1.5", nil}, {"NilClass", "nil", nil}, {"Symbol", ":s", nil},
	{"Array", "[1, \"s\"]", []string{"Integer", "String"}}, {"Array", "[1]", []string{"Integer"}}, {"Hash", "{k: 1}", nil}, {"Range", "(1..2)", nil},
}

var bcArgs = []struct{ class, lit string }{
	{"Integer", "7"}, {"String", "\"t\""}, {"Float", "2.5"}, {"NilClass", "nil"}, {"Symbol", ":q"}, {"Array", "[3]"}, {"Hash", "{j: 1}"},
	// union-typed arguments (variables set up by bcSetup)
	{"Integer|String", "uis"}, {"Integer|Float", "uif"}, {"String|NilClass", "usn"},
}

const bcSetup = "uis = true ? 7 : \"t\"\nuif = true ? 7 : 2.5\nusn = true ? \"t\" : nil\n"
const bcCallRow = 5

// canonType sorts union members and array element lists recursively.
func canonType(t string) string {
	t = strings.TrimSpace(t)
	split := func(inner string) []string {
		var parts []string
		depth, start := 0, 0
		for i, c := range inner {
			switch c {
			case '<':
				depth++
			case '>':
				depth--
			case ' ':
				if depth == 0 {
					parts = append(parts, inner[start:i])
					start = i + 1
				}
			}
		}
		return append(parts, inner[start:])
	}
	for _, pfx := range []string{"Union<", "Array<"} {
		if strings.HasPrefix(t, pfx) && strings.HasSuffix(t, ">") {
			ps := split(t[len(pfx) : len(t)-1])
			seen := map[string]bool{}
			var cs []string
			for _, p := range ps {
				c := canonType(p)
				if !seen[c] {
					seen[c] = true
					cs = append(cs, c)
				}
			}
			sort.Strings(cs)
			if pfx == "Union<" && len(cs) == 1 {
				return cs[0]
			}
			return pfx + strings.Join(cs, " ") + ">"
		}
	}
	return t
}

// specName renders a parameter-spec tuple for signatures, e.g. `[Int,?String]`.
func specName(P []gen.CfgArg, sp []int) string {
	var ns []string
	for _, i := range sp {
		a := P[i]
		n := ""
		switch t := a.Type.(type) {
		case string:
			n = t
		case []string:
			n = strings.Join(t, "/")
		}
		if a.IsDefault {
			n += "+is_default"
		}
		ns = append(ns, n)
	}
	return "[" + strings.Join(ns, ",") + "]"
}

func cfgTag(cfg string) string {
	if cfg == "core" || cfg == "" {
		return ""
	}
	return "@" + cfg
}

var opNameRe = regexp.MustCompile(`^(\+|-|\*|/|%|\*\*|<|>|<=|>=|==|!=|<=>|<<|>>|&|\||\^)$`)
var plainNameRe = regexp.MustCompile(`^[a-z_][a-z0-9_]*[?!]?$`)

type bcCase struct {
	cfg      string
	src      string
	recv     recvKind
	method   string
	args     []string // classes
	verdict  ref.Verdict
	reason   string
	wantType string // "" when the model does not cover the return type
	declared bool
}

func builtinCalls(x *ctx, prop string) {
	r := x.run
	thorough := x.tier == "thorough"
	switch prop {
	case "C07":
		r.Rule = "every configured instance method (and a few undeclared names) on every literal receiver class x every argument tuple of length 0..2 (thorough: 3) over {Integer,String,Float,nil,Symbol,Array,Hash}: " +
			"when the reference acceptance model says the call certainly fails (undeclared for the receiver class and its ancestors; count outside every declaration; an argument class rejected by every declaration) there must be a diagnostic on the call's row. non-trivial = certainly-failing calls"
	case "C08":
		r.Rule = "same calls as C07; when the reference acceptance model says the call certainly fits a declaration (declared or inherited, count accepted, every argument class accepted) there must be no diagnostic on the call's row. non-trivial = certainly-fitting calls"
	case "C09":
		r.Rule = "(a) same calls as C07/C08 restricted to certainly-fitting calls whose declared return type the reference resolves (basic classes, Self, Unify, OptionalUnify, typed arrays, unions, ?T): `dbtp recv.m(args)` must print that type; " +
			"(b) every straight-line program of <=3 statements over literals, array/hash literals, reassignment, indexing, push and << against a reference interpreter (probe after every statement). non-trivial = probes with a reference type"
	}
	r.Assumptions = []string{"reference model reads the same JSON as ti (21 core files) and answers three-valued: keyword parameters, block methods, conditional returns, typed-array element checks, Integer-for-Float and Unify-style parameter types are 'unknown' and never produce a verdict",
		"one call per program (no recovery effects)"}
	core := gen.CoreConfig(engine.RepoRoot)
	cfg := ref.Load(core)
	maxArgs := 2
	if thorough {
		maxArgs = 3
	}
	var tuples [][]int
	var rec func(cur []int)
	rec = func(cur []int) {
		tuples = append(tuples, append([]int{}, cur...))
		if len(cur) == maxArgs {
			return
		}
		for i := range bcArgs {
			rec(append(cur, i))
		}
	}
	rec(nil)
	var cases []bcCase
	genFor := func(cfgName string, cfg *ref.Config, receivers []recvKind, onlyClasses map[string]bool) {
		for _, rv := range receivers {
			// candidate method names: everything declared anywhere for literal classes, plus two undeclared names
			nameSet := map[string]bool{"zork_undeclared": true, "frobnicate": true}
			for cn, cl := range cfg.Classes {
				if onlyClasses != nil && !onlyClasses[cn] {
					continue
				}
				for n := range cl.Inst {
					nameSet[n] = true
				}
			}
			var names []string
			for n := range nameSet {
				names = append(names, n)
			}
			sort.Strings(names)
			for _, name := range names {
				isOp := opNameRe.MatchString(name)
				isIdx := false
				// `[]` and Array#<< are evaluated by ti's own indexing / append evaluators, not through the
				// declared signature (the shipped array.json even declares `[]` as returning Self): out of this
				// model's domain; indexing and << are covered by the straight-line family of C09.
				if name == "[]" || (name == "<<" && rv.class == "Array") {
					continue
				}
				if !isOp && !isIdx && !plainNameRe.MatchString(name) {
					continue
				}
				if name == "dbtp" || name == "dbp" || name == "p" || name == "puts" || name == "print" || name == "require" || name == "raise" || name == "loop" || name == "lambda" || name == "proc" ||
					name == "sleep" || name == "attr_reader" || name == "attr_writer" || name == "attr_accessor" || name == "include" || name == "extend" || name == "private" || name == "protected" || name == "new" ||
					name == "is_a?" || name == "nil?" || name == "class" || name == "send" || name == "freeze" || name == "catch" || name == "block_given?" || name == "gets" || name == "exit" || name == "system" {
					continue // evaluator keywords / Kernel plumbing: not ordinary configured calls
				}
				ms := cfg.Lookup(rv.class, name)
				// quick tier: undeclared-for-this-receiver names only with 0 and 1 arguments
				for _, tu := range tuples {
					if (isOp || isIdx) && len(tu) != 1 {
						continue
					}
					if ms == nil && len(tu) > 1 {
						continue
					}
					var lits, classes []string
					for _, i := range tu {
						lits = append(lits, bcArgs[i].lit)
						classes = append(classes, bcArgs[i].class)
					}
					call := "rv." + name
					switch {
					case isOp:
						call = "rv " + name + " " + lits[0]
					case isIdx:
						call = "rv[" + lits[0] + "]"
					case len(lits) > 0:
						call += "(" + strings.Join(lits, ", ") + ")"
					}
					c := bcCase{cfg: cfgName, src: bcSetup + "rv = " + rv.lit + "\ndbtp " + call + "\n", recv: rv, method: name, args: classes, declared: ms != nil}
					if ms == nil {
						c.verdict, c.reason = ref.Fails, "undeclared"
					} else {
						var m *ref.Method
						c.verdict, c.reason, m = ref.AcceptAny(ms, classes)
						if c.verdict == ref.Fits && m != nil {
							// all certainly-fitting overloads must agree on the return type for C09
							want, ok := m.RetType(rv.class, rv.elems)
							if ok {
								for _, o := range ms {
									if v, _ := o.Accept(classes); v != ref.Fails && o != m {
										w2, ok2 := o.RetType(rv.class, rv.elems)
										if !ok2 || canonType(w2) != canonType(want) {
											ok = false
										}
									}
								}
							}
							if ok {
								c.wantType = canonType(want)
							}
						}
					}
					cases = append(cases, c)
				}
			}
		}
	}
	genFor("core", cfg, bcReceivers, nil)
	// generated configurations: a base class and a subclass that overrides one method with a different
	// signature and adds one; loaded base-file-first and subclass-file-first. Receivers are instances.
	ret := func(t string) gen.CfgRet { return gen.CfgRet{Type: []string{t}} }
	newM := func(cls string) gen.CfgMethod {
		return gen.CfgMethod{Name: "new", Arguments: []gen.CfgArg{}, ReturnType: ret(cls)}
	}
	gbase := gen.CfgClass{Frame: "Builtin", Class: "Gbase", ClassMethods: []gen.CfgMethod{newM("Gbase")}, InstanceMethods: []gen.CfgMethod{
		{Name: "mm", Arguments: []gen.CfgArg{{Type: []string{"Int"}}}, ReturnType: ret("Int")},
		{Name: "nn", Arguments: []gen.CfgArg{}, ReturnType: ret("String")},
		{Name: "oo", Arguments: []gen.CfgArg{{Type: []string{"String"}}, {Type: []string{"DefaultInt"}}}, ReturnType: ret("Symbol")},
		// an overloaded method (two declarations) that Gsub inherits
		{Name: "pp", Arguments: []gen.CfgArg{{Type: []string{"Int"}}}, ReturnType: ret("Int")},
		{Name: "pp", Arguments: []gen.CfgArg{{Type: []string{"String"}}, {Type: []string{"Int"}}}, ReturnType: ret("Int")}}}
	gsub := gen.CfgClass{Frame: "Builtin", Class: "Gsub", Extends: []string{"Gbase"}, ClassMethods: []gen.CfgMethod{newM("Gsub")}, InstanceMethods: []gen.CfgMethod{
		{Name: "mm", Arguments: []gen.CfgArg{{Type: []string{"String"}}, {Type: []string{"String"}}}, ReturnType: ret("Float")},
		{Name: "kk", Arguments: []gen.CfgArg{{Type: []string{"Symbol"}}}, ReturnType: ret("Bool")}}}
	genCfgs := map[string]map[string]string{
		"gen-base-first": gen.Merge(core, map[string]string{"gbase.json": gbase.JSON(), "gsub.json": gsub.JSON()}),
		"gen-sub-first":  gen.Merge(core, map[string]string{"zz_gbase.json": gbase.JSON(), "aa_gsub.json": gsub.JSON()}),
	}
	// generated files per configuration name (replay files carry these; the core files are implied)
	extraCfg := map[string]map[string]string{
		"gen-base-first": {"gbase.json": gbase.JSON(), "gsub.json": gsub.JSON()},
		"gen-sub-first":  {"zz_gbase.json": gbase.JSON(), "aa_gsub.json": gsub.JSON()},
	}
	for _, n := range []string{"gen-base-first", "gen-sub-first"} {
		x.pool.NewCfgDir(n, genCfgs[n])
		genFor(n, ref.Load(genCfgs[n]), []recvKind{{"Gbase", "Gbase.new", nil}, {"Gsub", "Gsub.new", nil}}, map[string]bool{"Gbase": true, "Gsub": true})
	}
	// CG: one generated class whose class methods cover every parameter-spec tuple over P up to the length
	// bound, each with a return spec from R (rotating); called as `Cg.mN(args)` with every argument tuple.
	P := []gen.CfgArg{
		{Type: []string{"Int"}}, {Type: []string{"String"}}, {Type: []string{"Float"}}, {Type: []string{"Int", "String"}}, {Type: "Int|Symbol"},
		{Type: []string{"DefaultInt"}}, {Type: "?String"}, {Type: []string{"String"}, IsDefault: true}, {Type: "*Int"}, {Type: []string{"Untyped"}}, {Type: []string{"NilClass", "Float"}},
	}
	R := []gen.CfgRet{{Type: []string{"Int"}}, {Type: []string{"String"}}, {Type: "?Int"}, {Type: []string{"Int", "String"}}, {Type: "[String]"}, {Type: []string{"Float"}}, {Type: "String|NilClass"}, {Type: []string{"Symbol"}},
		// unions whose members resolve to the same container class with different content
		{Type: []string{"OptionalInt", "OptionalString"}}, {Type: []string{"IntArray", "StringArray"}}, {Type: []string{"Number", "OptionalString"}}, {Type: []string{"OptionalFloat", "Int"}}}
	maxSpec := 2
	if thorough {
		maxSpec = 3
	}
	var specs [][]int
	var srec func(cur []int)
	srec = func(cur []int) {
		specs = append(specs, append([]int{}, cur...))
		if len(cur) == maxSpec {
			return
		}
		for i := range P {
			srec(append(cur, i))
		}
	}
	srec(nil)
	cg := gen.CfgClass{Frame: "Builtin", Class: "Cg"}
	for i, sp := range specs {
		m := gen.CfgMethod{Name: fmt.Sprintf("m%d", i), Arguments: []gen.CfgArg{}, ReturnType: R[i%len(R)]}
		for _, pi := range sp {
			m.Arguments = append(m.Arguments, P[pi])
		}
		cg.ClassMethods = append(cg.ClassMethods, m)
	}
	cgFiles := gen.Merge(core, map[string]string{"cg.json": cg.JSON()})
	x.pool.NewCfgDir("cg-all", cgFiles)
	extraCfg["cg-all"] = map[string]string{"cg.json": cg.JSON()}
	cgRef := ref.Load(cgFiles)
	for i := range specs {
		name := fmt.Sprintf("m%d", i)
		ms := cgRef.LookupStatic("Cg", name)
		for _, tu := range tuples {
			if len(tu) > len(specs[i])+1 {
				continue
			}
			if !thorough && len(specs[i]) == 2 && len(tu) == 2 && (i+tu[0]+tu[1])%3 != 0 {
				continue // quick: a third of the two-argument calls on two-parameter methods
			}
			var lits, classes []string
			for _, k := range tu {
				lits = append(lits, bcArgs[k].lit)
				classes = append(classes, bcArgs[k].class)
			}
			call := "Cg." + name
			if len(lits) > 0 {
				call += "(" + strings.Join(lits, ", ") + ")"
			}
			c := bcCase{cfg: "cg-all", src: bcSetup + "rv = 0\ndbtp " + call + "\n", recv: recvKind{"Cg", "Cg", nil}, method: "m" + specName(P, specs[i]), args: classes, declared: true}
			var m *ref.Method
			c.verdict, c.reason, m = ref.AcceptAny(ms, classes)
			if c.verdict == ref.Fits && m != nil {
				if want, ok := m.RetType("Cg", nil); ok {
					c.wantType = canonType(want)
				}
			}
			cases = append(cases, c)
		}
	}
	// KW: one generated class whose class methods take 0-1 positional parameters and 2-3 keyword parameters
	// (Int or String each) declared in every order of the names {zeta, alpha, mid}; every call supplies all
	// keywords, in every call order, with Integer or String values. The call certainly fails when some
	// keyword's value class is rejected by its declared type, and certainly fits when every value matches.
	{
		kwNames := []string{"zeta", "alpha", "mid"}
		kwTypes := []string{"Int", "String"}
		kwVals := map[string]string{"Int": "1", "String": "\"s\""}
		kwClass := map[string]string{"Int": "Integer", "String": "String"}
		kw := gen.CfgClass{Frame: "Builtin", Class: "Kwc"}
		type kwMeth struct {
			name  string
			npos  int
			order []int    // declared order of kwNames indices
			types []string // declared type per kwNames index
		}
		var kms []kwMeth
		for npos := 0; npos <= 1; npos++ {
			for K := 2; K <= 3; K++ {
				for _, order := range gen.Permutations(K) {
					nt := 1
					for i := 0; i < K; i++ {
						nt *= len(kwTypes)
					}
					for tv := 0; tv < nt; tv++ {
						types := make([]string, K)
						v := tv
						for i := 0; i < K; i++ {
							types[i] = kwTypes[v%len(kwTypes)]
							v /= len(kwTypes)
						}
						km := kwMeth{name: fmt.Sprintf("k%d", len(kms)), npos: npos, order: order, types: types}
						kms = append(kms, km)
						m := gen.CfgMethod{Name: km.name, Arguments: []gen.CfgArg{}, ReturnType: gen.CfgRet{Type: []string{"Float"}}}
						if npos == 1 {
							m.Arguments = append(m.Arguments, gen.CfgArg{Type: []string{"Int"}})
						}
						for _, j := range order {
							m.Arguments = append(m.Arguments, gen.CfgArg{Key: kwNames[j] + ":", Type: []string{types[j]}})
						}
						kw.ClassMethods = append(kw.ClassMethods, m)
					}
				}
			}
		}
		kwFiles := gen.Merge(core, map[string]string{"kwc.json": kw.JSON()})
		x.pool.NewCfgDir("kw-all", kwFiles)
		extraCfg["kw-all"] = map[string]string{"kwc.json": kw.JSON()}
		for _, km := range kms {
			K := len(km.order)
			nv := 1
			for i := 0; i < K; i++ {
				nv *= len(kwTypes)
			}
			var declared []string
			for _, j := range km.order {
				declared = append(declared, kwNames[j]+":"+km.types[j])
			}
			for vv := 0; vv < nv; vv++ {
				vals := make([]string, K)
				v := vv
				wrong := 0
				for i := 0; i < K; i++ {
					vals[i] = kwTypes[v%len(kwTypes)]
					if vals[i] != km.types[i] {
						wrong++
					}
					v /= len(kwTypes)
				}
				for pi, callOrder := range gen.Permutations(K) {
					if !thorough && K == 3 && (pi+vv)%2 != 0 {
						continue // quick: half of the call orders for three keywords
					}
					var as, classes []string
					if km.npos == 1 {
						as = append(as, "7")
						classes = append(classes, "Integer")
					}
					for _, j := range callOrder {
						as = append(as, kwNames[j]+": "+kwVals[vals[j]])
						classes = append(classes, kwNames[j]+":"+kwClass[vals[j]])
					}
					c := bcCase{cfg: "kw-all", src: bcSetup + "rv = 0\ndbtp Kwc." + km.name + "(" + strings.Join(as, ", ") + ")\n", recv: recvKind{"Kwc", "Kwc", nil},
						method: fmt.Sprintf("kw[pos=%d;%s]", km.npos, strings.Join(declared, ",")), args: classes, declared: true}
					if wrong > 0 {
						c.verdict, c.reason = ref.Fails, "kw-argtype"
					} else {
						c.verdict, c.reason, c.wantType = ref.Fits, "", "Float"
					}
					cases = append(cases, c)
				}
			}
		}
	}
	// OVL: overloaded class methods that combine a rest parameter followed by a required positional (or a required
	// keyword) with a fixed-arity declaration, in both declaration orders; a user subclass of a configured class
	// calling an inherited overloaded method. Verdicts are written out by hand (every declaration rejects / one fits).
	{
		str, in := gen.CfgArg{Type: []string{"String"}}, gen.CfgArg{Type: []string{"Int"}}
		rest := gen.CfgArg{Type: "*String"}
		kreq := gen.CfgArg{Key: "kq:", Type: []string{"Int"}}
		mm := func(name string, args ...gen.CfgArg) gen.CfgMethod {
			return gen.CfgMethod{Name: name, Arguments: args, ReturnType: gen.CfgRet{Type: []string{"Float"}}}
		}
		ovl := gen.CfgClass{Frame: "Builtin", Class: "Ovl", ClassMethods: []gen.CfgMethod{
			mm("ra", rest, in), mm("ra", str), // rest+trailing first, fixed second
			mm("rb", str), mm("rb", rest, in), // reverse order
			mm("rk", rest, kreq), mm("rk", str), // rest + required keyword first
			mm("new"),
		}, InstanceMethods: []gen.CfgMethod{mm("sc", in), mm("sc", str, in)}}
		ovl.ClassMethods[6].ReturnType = gen.CfgRet{Type: []string{"Ovl"}}
		ovlFiles := gen.Merge(core, map[string]string{"ovl.json": ovl.JSON()})
		x.pool.NewCfgDir("ovl-all", ovlFiles)
		extraCfg["ovl-all"] = map[string]string{"ovl.json": ovl.JSON()}
		type oc struct {
			call    string
			classes []string
			fits    bool
			reason  string
		}
		var ocs []oc
		for _, m := range []string{"ra", "rb"} {
			ocs = append(ocs,
				oc{"Ovl." + m + "(\"a\", \"b\", \"c\")", []string{"String", "String", "String"}, false, "every-overload-rejects"},
				oc{"Ovl." + m + "(\"x\", \"y\")", []string{"String", "String"}, false, "every-overload-rejects"},
				oc{"Ovl." + m, nil, false, "every-overload-rejects"},
				oc{"Ovl." + m + "(\"a\")", []string{"String"}, true, ""},
				oc{"Ovl." + m + "(\"a\", 1)", []string{"String", "Integer"}, true, ""},
				oc{"Ovl." + m + "(\"a\", \"b\", 1)", []string{"String", "String", "Integer"}, true, ""},
				oc{"Ovl." + m + "(1)", []string{"Integer"}, true, ""})
		}
		ocs = append(ocs,
			oc{"Ovl.rk(\"a\", \"b\")", []string{"String", "String"}, false, "every-overload-rejects"},
			oc{"Ovl.rk(\"a\", \"b\", \"c\")", []string{"String", "String", "String"}, false, "every-overload-rejects"},
			oc{"Ovl.rk(\"a\")", []string{"String"}, true, ""},
			oc{"Ovl.rk(\"a\", \"b\", kq: 1)", []string{"String", "String", "kq:Integer"}, true, ""},
			// inherited overloads through a user subclass and through the configured class itself
			oc{"Ovl.new.sc(\"s\", 1)", []string{"String", "Integer"}, true, ""},
			oc{"Ovl.new.sc(1)", []string{"Integer"}, true, ""},
			oc{"Ovl.new.sc(\"s\")", []string{"String"}, false, "every-overload-rejects"},
			oc{"Uovl.new.sc(\"s\", 1)", []string{"String", "Integer"}, true, ""},
			oc{"Uovl.new.sc(1)", []string{"Integer"}, true, ""},
			oc{"Uovl.new.sc(\"s\")", []string{"String"}, false, "every-overload-rejects"},
			oc{"Uovl.new.sc(1, 2, 3)", []string{"Integer", "Integer", "Integer"}, false, "every-overload-rejects"})
		for _, o := range ocs {
			setup := bcSetup
			if strings.HasPrefix(o.call, "Uovl") {
				// keep the call on the row the oracle looks at: the subclass goes on the `rv = 0` line
				c := bcCase{cfg: "ovl-all", src: setup + "class Uovl < Ovl; end\ndbtp " + o.call + "\n", recv: recvKind{"Ovl", "Ovl", nil}, method: "ovl:" + o.call, args: o.classes, declared: true}
				if o.fits {
					c.verdict, c.wantType = ref.Fits, "Float"
				} else {
					c.verdict, c.reason = ref.Fails, o.reason
				}
				cases = append(cases, c)
				continue
			}
			c := bcCase{cfg: "ovl-all", src: setup + "rv = 0\ndbtp " + o.call + "\n", recv: recvKind{"Ovl", "Ovl", nil}, method: "ovl:" + o.call, args: o.classes, declared: true}
			if o.fits {
				c.verdict, c.wantType = ref.Fits, "Float"
			} else {
				c.verdict, c.reason = ref.Fails, o.reason
			}
			cases = append(cases, c)
		}
	}
	// EXPR: operator chains on one row in which every call fits its declaration (arithmetic binds tighter than
	// comparison, which binds tighter than &&): no diagnostic, and the row has the type of the outermost call
	{
		exprs := []struct{ src, want string }{
			{"ei + ej * ew < en", "Bool"}, {"en - ei * 2 == 94", "Bool"}, {"es + et * 2 == \"abcdcd\"", "Bool"}, {"ei * ej + ew * en", "Integer"},
			{"ei + ej * ew", "Integer"}, {"ej * ew < en", "Bool"}, {"ei + ej < en", "Bool"}, {"ei - ej / ew >= en", "Bool"}, {"ef * ei + ej > ew", "Bool"},
			{"ei + ej * ew <=> en", ""}, {"ei % ej + ew != en", "Bool"}, {"es * 2 + et == es", "Bool"},
		}
		pre := "ei, ej, ew, en = 1, 2, 3, 10\nef = 1.5\nes = \"ab\"\net = \"cd\"\n"
		if strings.Count(pre, "\n") != strings.Count(bcSetup, "\n")+1 {
			// keep the probed call on the row the oracle looks at by padding / trimming the setup
			for strings.Count(pre, "\n") < strings.Count(bcSetup, "\n")+1 {
				pre += "ez = 0\n"
			}
		}
		if strings.Count(pre, "\n") == strings.Count(bcSetup, "\n")+1 {
			for _, e := range exprs {
				c := bcCase{cfg: "core", src: pre + "dbtp " + e.src + "\n", recv: recvKind{"Integer", "1", nil}, method: "expr:" + e.src, args: nil, declared: true}
				c.verdict, c.wantType = ref.Fits, e.want
				cases = append(cases, c)
			}
		}
	}
	// NEST: the call sits inside a block, after a nested block / conditional / loop step, and its receiver or
	// argument is a local assigned earlier in the enclosing block (row 5 in every layout)
	{
		layouts := []struct {
			name string
			pre  []string // rows 1-4
			post []string
		}{
			{"block-after-inner-block", []string{"[1].each do |q|", "  lab = \"s\"", "  [2].each do |r|", "  end"}, []string{"end"}},
			{"block-after-inner-brace-block", []string{"[1].each do |q|", "  lab = \"s\"", "  [2].each { |r| r }", "  q"}, []string{"end"}},
			{"block-after-if", []string{"[1].each do |q|", "  lab = \"s\"", "  if q == 1", "  end"}, []string{"end"}},
			{"while-body", []string{"zi = 0", "while zi < 1", "  lab = \"s\"", "  zi = zi + 1"}, []string{"end"}},
			{"def-after-block", []string{"def mq", "  lab = \"s\"", "  [2].each { |r| r }", "  1"}, []string{"end", "mq"}},
			{"two-levels", []string{"[1].each do |q|", "  [2].each do |r|", "    lab = \"s\"", "    [3].each { |t| t }"}, []string{"  end", "end"}},
		}
		type nestCall struct {
			src    string
			fits   bool
			want   string
			reason string
		}
		var calls []nestCall
		// verdicts come from the reference model (String receiver), as everywhere else
		for _, nc := range []struct {
			src, method string
			args        []string
		}{{"lab.abs", "abs", nil}, {"\"x\".ljust(lab)", "ljust", []string{"String"}}, {"lab.length(1)", "length", []string{"Integer"}}, {"lab.chars(1, 2)", "chars", []string{"Integer", "Integer"}},
			{"lab.upcase", "upcase", nil}, {"lab.length", "length", nil}, {"lab.ljust(3)", "ljust", []string{"Integer"}}} {
			ms := cfg.Lookup("String", nc.method)
			if ms == nil {
				calls = append(calls, nestCall{nc.src, false, "", "undeclared"})
				continue
			}
			v, reason, m := ref.AcceptAny(ms, nc.args)
			switch v {
			case ref.Fails:
				calls = append(calls, nestCall{nc.src, false, "", reason})
			case ref.Fits:
				want := ""
				if m != nil {
					if w, ok := m.RetType("String", nil); ok {
						want = canonType(w)
					}
				}
				calls = append(calls, nestCall{nc.src, true, want, ""})
			}
		}
		for _, lo := range layouts {
			for _, cl := range calls {
				ind := lo.pre[len(lo.pre)-1][:len(lo.pre[len(lo.pre)-1])-len(strings.TrimLeft(lo.pre[len(lo.pre)-1], " "))]
				src := strings.Join(lo.pre, "\n") + "\n" + ind + "dbtp " + cl.src + "\n" + strings.Join(lo.post, "\n") + "\n"
				c := bcCase{cfg: "core", src: src, recv: recvKind{"String", "\"s\"", nil}, method: "nest:" + lo.name + ":" + cl.src, args: nil, declared: true}
				if cl.fits {
					c.verdict, c.wantType = ref.Fits, cl.want
				} else {
					c.verdict, c.reason = ref.Fails, cl.reason
				}
				cases = append(cases, c)
			}
		}
	}
	// select by property
	var sel []bcCase
	for _, c := range cases {
		switch prop {
		case "C07":
			if c.verdict == ref.Fails {
				sel = append(sel, c)
			}
		case "C08":
			if c.verdict == ref.Fits {
				sel = append(sel, c)
			}
		case "C09":
			if c.verdict == ref.Fits && c.wantType != "" {
				sel = append(sel, c)
			}
		}
	}
	sl := straightLinePrograms(thorough)
	if prop != "C09" {
		sl = nil
	}
	ecases := make([]*engine.Case, 0, len(sel)+len(sl))
	for _, c := range sel {
		ecases = append(ecases, &engine.Case{Cfg: c.cfg, Files: map[string]string{"t.rb": c.src}, Argv: []string{"t.rb"}})
	}
	for _, p := range sl {
		ecases = append(ecases, &engine.Case{Cfg: "core", Files: map[string]string{"t.rb": p.src}, Argv: []string{"t.rb"}})
	}
	res := x.pool.RunAll(ecases)
	type viol struct {
		idx  int
		desc string
	}
	bySig := map[string][]viol{}
	var recs []execRec
	rowRecords := func(out string, row int) []string {
		var rs []string
		for _, l := range strings.Split(strings.TrimSuffix(out, "\n"), "\n") {
			p := strings.SplitN(l, ":::", 3)
			if len(p) == 3 && p[1] == fmt.Sprint(row) {
				rs = append(rs, p[2])
			}
		}
		return rs
	}
	argSig := func(a []string) string { return strings.Join(a, ",") }
	for i, c := range sel {
		rr := res[i]
		r.Evaluations++
		r.Transitions++
		r.Nontrivial++
		if rr.Abnormal() {
			bySig["abnormal:"+outOf(rr)] = append(bySig["abnormal:"+outOf(rr)], viol{i, outOf(rr)})
			continue
		}
		r.Outcome(prop + "|" + outcomeShape(rr.Stdout, "t.rb"))
		if i%211 == 0 {
			recs = append(recs, execRec{ecases[i].Cfg, ecases[i].Files, ecases[i].Argv, rr.Stdout})
		}
		recsOnRow := rowRecords(rr.Stdout, bcCallRow)
		nDiag := len(recsOnRow) - 1 // the last record of the row is dbtp's own output
		if len(recsOnRow) == 0 {
			nDiag = 0
		}
		switch prop {
		case "C07":
			if nDiag < 1 {
				sig := fmt.Sprintf("c07:%s#%s(%s):%s%s", c.recv.class, c.method, argSig(c.args), c.reason, cfgTag(c.cfg))
				bySig[sig] = append(bySig[sig], viol{i, fmt.Sprintf("certainly failing call (%s) not reported: %q printed %q", c.reason, lastStmt(c.src), strings.TrimSpace(rr.Stdout))})
			}
		case "C08":
			if nDiag >= 1 {
				sig := fmt.Sprintf("c08:%s#%s(%s)%s", c.recv.class, c.method, argSig(c.args), cfgTag(c.cfg))
				bySig[sig] = append(bySig[sig], viol{i, fmt.Sprintf("certainly accepted call reported: %q printed %q", lastStmt(c.src), strings.TrimSpace(rr.Stdout))})
			}
		case "C09":
			got := ""
			if len(recsOnRow) > 0 {
				got = canonType(recsOnRow[len(recsOnRow)-1])
			}
			if got != c.wantType {
				sig := fmt.Sprintf("c09:%s[%s]#%s(%s):got=%s:want=%s", c.recv.class, strings.Join(c.recv.elems, " "), c.method, argSig(c.args), got, c.wantType)
				bySig[sig] = append(bySig[sig], viol{i, fmt.Sprintf("%q: ti prints %q, declared return type resolves to %q", lastStmt(c.src), got, c.wantType)})
			}
		}
	}
	for j, p := range sl {
		i := len(sel) + j
		rr := res[i]
		r.Evaluations++
		r.Transitions++
		if rr.Abnormal() {
			bySig["abnormal:"+outOf(rr)] = append(bySig["abnormal:"+outOf(rr)], viol{i, outOf(rr)})
			continue
		}
		r.Outcome("sl|" + rr.Stdout)
		if j%53 == 0 {
			recs = append(recs, execRec{ecases[i].Cfg, ecases[i].Files, ecases[i].Argv, rr.Stdout})
		}
		for _, pb := range p.probes {
			r.Nontrivial++
			rs := rowRecords(rr.Stdout, pb.row)
			got := ""
			if len(rs) > 0 {
				got = canonType(rs[len(rs)-1])
			}
			if pb.what == "array-index" {
				// whether an index expression may be nil is not part of the statement: NilClass is ignored
				strip := func(t string) string {
					return canonType(strings.ReplaceAll(strings.ReplaceAll(t, " NilClass", ""), "NilClass ", ""))
				}
				if strip(got) == strip(pb.want) {
					continue
				}
			}
			if got != pb.want {
				sig := fmt.Sprintf("c09:straight-line:%s:got=%s:want=%s", pb.what, got, pb.want)
				bySig[sig] = append(bySig[sig], viol{i, fmt.Sprintf("row %d (%s): ti prints %q, reference %q", pb.row, pb.what, got, pb.want)})
			}
		}
	}
	r.States = r.Evaluations
	r.Extra["calls_generated"] = len(cases)
	r.Extra["calls_selected"] = len(sel)
	r.Extra["straight_line_programs"] = len(sl)
	r.Extra["mismatching_signatures"] = len(bySig)
	if dbg := os.Getenv("VERIF_DEBUG_SIGS"); dbg != "" {
		var sb strings.Builder
		for s, vs := range bySig {
			fmt.Fprintf(&sb, "%d\t%s\t%s\n", len(vs), s, vs[0].desc)
		}
		os.WriteFile(dbg, []byte(sb.String()), 0o644)
	}
	var sigs []string
	for s := range bySig {
		sigs = append(sigs, s)
	}
	sort.Strings(sigs)
	budget := 60
	for _, s := range sigs {
		vs := bySig[s]
		v := vs[0]
		known := r.Known(s) != nil
		if !known {
			if budget <= 0 {
				r.Unconfirmed = append(r.Unconfirmed, s+" (confirmation budget exhausted)")
				continue
			}
			budget--
			rr := x.realStable(ecases[v.idx].Cfg, ecases[v.idx].Files, ecases[v.idx].Argv)
			if rr.Stdout != res[v.idx].Stdout {
				r.Unconfirmed = append(r.Unconfirmed, s+" (real binary prints something else)")
				continue
			}
			r.Validated++
		}
		for i := range vs {
			if i == 0 {
				r.Report(s, fmt.Sprintf("%s: %s", s, v.desc),
					ReplayDoc{Cfg: "inline", CfgFiles: extraCfg[ecases[v.idx].Cfg], Files: ecases[v.idx].Files, Argv: ecases[v.idx].Argv, Observed: head(res[v.idx].Stdout, 800), Expected: v.desc,
						Note: "configuration: the listed files (if any) plus the 21 core configuration files of /repo/test/.ti-config"})
			} else {
				r.Report(s, "", nil)
			}
		}
	}
	x.validateAgainstReal(recs, 40)
	r.Bounds = map[string]any{"receivers": len(bcReceivers), "argument_kinds": len(bcArgs), "max_args": maxArgs, "tuples": len(tuples)}
	if len(sel) > 0 {
		r.Sample(map[string]any{"program": sel[len(sel)/2].src, "verdict": map[ref.Verdict]string{ref.Fits: "certainly-fits", ref.Fails: "certainly-fails"}[sel[len(sel)/2].verdict], "reason": sel[len(sel)/2].reason, "want_type": sel[len(sel)/2].wantType})
		r.Sample(map[string]any{"program": sel[0].src, "reason": sel[0].reason, "want_type": sel[0].wantType})
	}
	if len(sl) > 0 {
		r.Sample(map[string]any{"straight_line_program": sl[len(sl)/2].src})
	}
}

// ---- straight-line reference interpreter (C09 b) --------------------------------------------

type slVal struct {
	class string
	elems []string          // Array
	hash  map[string]string // Hash: literal symbol key -> class
	hkeys []string
}

func (v slVal) render() string {
	switch v.class {
	case "Array":
		if len(v.elems) == 0 {
			return "Array<untyped>"
		}
		return canonType("Array<" + strings.Join(v.elems, " ") + ">")
	}
	return v.class
}

// splitTypeList splits "A Array<B C> D" at top-level blanks.
func splitTypeList(inner string) []string {
	var parts []string
	depth, start := 0, 0
	for i, c := range inner {
		switch c {
		case '<':
			depth++
		case '>':
			depth--
		case ' ':
			if depth == 0 {
				parts = append(parts, inner[start:i])
				start = i + 1
			}
		}
	}
	return append(parts, inner[start:])
}

func hasArrayElem(es []string) bool {
	for _, e := range es {
		if strings.HasPrefix(e, "Array<") {
			return true
		}
	}
	return false
}

// addElem adds an element type to an array's element list. ti keeps one Array variant per element list:
// a second array element is merged into it (`[[1], ["x"]]` is Array<Array<Integer String>>), recursively.
func addElem(es []string, c string) []string {
	if strings.HasPrefix(c, "Array<") {
		for i, e := range es {
			if strings.HasPrefix(e, "Array<") {
				inner := splitTypeList(e[6 : len(e)-1])
				for _, p := range splitTypeList(c[6 : len(c)-1]) {
					inner = addElem(inner, p)
				}
				out := append([]string{}, es...)
				out[i] = "Array<" + strings.Join(inner, " ") + ">"
				return out
			}
		}
	}
	for _, e := range es {
		if e == c {
			return es
		}
	}
	return append(append([]string{}, es...), c)
}

func straightLinePrograms(thorough bool) []struct {
	src    string
	probes []struct {
		row  int
		want string
		what string
	}
} {
	type stmt struct {
		src  string
		what string
		app  func(env map[string]slVal) (probeVar string, ok bool)
	}
	lit := func(v, src, class string) stmt {
		return stmt{v + " = " + src, "literal-" + class, func(e map[string]slVal) (string, bool) { e[v] = slVal{class: class}; return v, true }}
	}
	stmts := []stmt{
		lit("a", "1", "Integer"), lit("a", "\"s\"", "String"), lit("b", "2.5", "Float"), lit("b", ":q", "Symbol"), lit("a", "nil", "NilClass"),
		{"a = [1, \"s\"]", "array-literal", func(e map[string]slVal) (string, bool) {
			e["a"] = slVal{class: "Array", elems: []string{"Integer", "String"}}
			return "a", true
		}},
		{"a = [1]", "array-literal", func(e map[string]slVal) (string, bool) {
			e["a"] = slVal{class: "Array", elems: []string{"Integer"}}
			return "a", true
		}},
		{"b = {k: 1, j: \"s\"}", "hash-literal", func(e map[string]slVal) (string, bool) {
			e["b"] = slVal{class: "Hash", hash: map[string]string{"k": "Integer", "j": "String"}}
			return "b", true
		}},
		{"b = {k: 1, j: 2.5, k: \"s\"}", "hash-literal-repeated-key", func(e map[string]slVal) (string, bool) {
			e["b"] = slVal{class: "Hash", hash: map[string]string{"k": "String", "j": "Float"}}
			return "b", true
		}},
		{"c = a.first", "optional-unify-call", func(e map[string]slVal) (string, bool) {
			v, ok := e["a"]
			if !ok || v.class != "Array" || len(v.elems) == 0 || hasArrayElem(v.elems) {
				return "", false
			}
			e["c"] = slVal{class: canonType("Union<" + strings.Join(addElem(v.elems, "NilClass"), " ") + ">")}
			return "c", true
		}},
		{"c = a.first\nb = a", "receiver-after-optional-unify-call", func(e map[string]slVal) (string, bool) {
			v, ok := e["a"]
			if !ok || v.class != "Array" || len(v.elems) == 0 || hasArrayElem(v.elems) {
				return "", false
			}
			e["c"] = slVal{class: canonType("Union<" + strings.Join(addElem(v.elems, "NilClass"), " ") + ">")}
			e["b"] = v
			return "b", true
		}},
		{"b = a", "copy", func(e map[string]slVal) (string, bool) {
			v, ok := e["a"]
			if !ok {
				return "", false
			}
			e["b"] = v
			return "b", true
		}},
		{"c = a[0]", "array-index", func(e map[string]slVal) (string, bool) {
			v, ok := e["a"]
			if !ok || v.class != "Array" || len(v.elems) == 0 || hasArrayElem(v.elems) {
				return "", false
			}
			e["c"] = slVal{class: canonType("Union<" + strings.Join(addElem(v.elems, "NilClass"), " ") + ">")}
			return "c", true
		}},
		{"c = b[:k]", "hash-lookup", func(e map[string]slVal) (string, bool) {
			v, ok := e["b"]
			if !ok || v.class != "Hash" {
				return "", false
			}
			e["c"] = slVal{class: v.hash["k"]}
			return "c", true
		}},
		{"c = b[:j]", "hash-lookup", func(e map[string]slVal) (string, bool) {
			v, ok := e["b"]
			if !ok || v.class != "Hash" {
				return "", false
			}
			e["c"] = slVal{class: v.hash["j"]}
			return "c", true
		}},
		{"a.push(2.5)", "push", func(e map[string]slVal) (string, bool) {
			v, ok := e["a"]
			if !ok || v.class != "Array" {
				return "", false
			}
			v.elems = addElem(v.elems, "Float")
			e["a"] = v
			return "a", true
		}},
		{"a << :q", "shovel", func(e map[string]slVal) (string, bool) {
			v, ok := e["a"]
			if !ok || v.class != "Array" {
				return "", false
			}
			v.elems = addElem(v.elems, "Symbol")
			e["a"] = v
			return "a", true
		}},
		{"a = [[1]]", "nested-array-literal", func(e map[string]slVal) (string, bool) {
			e["a"] = slVal{class: "Array", elems: []string{"Array<Integer>"}}
			return "a", true
		}},
		{"a = [[1], [\"s\"], 2.5]", "nested-array-literal", func(e map[string]slVal) (string, bool) {
			e["a"] = slVal{class: "Array", elems: []string{"Array<Integer String>", "Float"}}
			return "a", true
		}},
		{"a << [\"s\"]", "shovel-array", func(e map[string]slVal) (string, bool) {
			v, ok := e["a"]
			if !ok || v.class != "Array" || len(v.elems) == 0 {
				return "", false
			}
			v.elems = addElem(v.elems, "Array<String>")
			e["a"] = v
			return "a", true
		}},
		{"a.push([:q, 1])", "push-array", func(e map[string]slVal) (string, bool) {
			v, ok := e["a"]
			if !ok || v.class != "Array" || len(v.elems) == 0 {
				return "", false
			}
			v.elems = addElem(v.elems, "Array<Symbol Integer>")
			e["a"] = v
			return "a", true
		}},
		// operator calls as statements and as array-literal elements (the element is the operator's result)
		{"c = 2 * 3", "operator-call", func(e map[string]slVal) (string, bool) {
			e["c"] = slVal{class: "Integer"}
			return "c", true
		}},
		{"c = 4 - 1", "operator-call", func(e map[string]slVal) (string, bool) {
			e["c"] = slVal{class: "Integer"}
			return "c", true
		}},
		{"b = [c + 1.5]", "array-of-operator-result", func(e map[string]slVal) (string, bool) {
			v, ok := e["c"]
			if !ok || v.class != "Integer" {
				return "", false
			}
			e["b"] = slVal{class: "Array", elems: []string{"Float"}}
			return "b", true
		}},
		{"b = [c == 4, c - 1]", "array-of-operator-result", func(e map[string]slVal) (string, bool) {
			v, ok := e["c"]
			if !ok || v.class != "Integer" {
				return "", false
			}
			e["b"] = slVal{class: "Array", elems: []string{"Bool", "Integer"}}
			return "b", true
		}},
		{"c = a.length", "builtin-call", func(e map[string]slVal) (string, bool) {
			v, ok := e["a"]
			if !ok || v.class != "Array" {
				return "", false
			}
			e["c"] = slVal{class: "Integer"}
			return "c", true
		}},
		{"c = a.to_s.upcase", "builtin-chain", func(e map[string]slVal) (string, bool) {
			v, ok := e["a"]
			if !ok || v.class != "Integer" {
				return "", false
			}
			e["c"] = slVal{class: "String"}
			return "c", true
		}},
	}
	depth := 3
	if thorough {
		depth = 4
	}
	var out []struct {
		src    string
		probes []struct {
			row  int
			want string
			what string
		}
	}
	var rec func(seq []int)
	rec = func(seq []int) {
		if len(seq) > 0 {
			env := map[string]slVal{}
			var sb strings.Builder
			row := 0
			var probes []struct {
				row  int
				want string
				what string
			}
			ok := true
			for _, si := range seq {
				s := stmts[si]
				pv, k := s.app(env)
				if !k {
					ok = false
					break
				}
				sb.WriteString(s.src + "\n")
				row += strings.Count(s.src, "\n") + 1
				sb.WriteString("dbtp " + pv + "\n")
				row++
				probes = append(probes, struct {
					row  int
					want string
					what string
				}{row, env[pv].render(), s.what})
			}
			if !ok {
				return
			}
			out = append(out, struct {
				src    string
				probes []struct {
					row  int
					want string
					what string
				}
			}{sb.String(), probes})
		}
		if len(seq) == depth {
			return
		}
		for i := range stmts {
			rec(append(append([]int{}, seq...), i))
		}
	}
	rec(nil)
	return out
}
