package main

import (
	"fmt"
	"os"
	"sort"
	"strings"

	"verif/internal/engine"
)

func init() { register("C15", c15) }

func c15(x *ctx) {
	r := x.run
	thorough := x.tier == "thorough"
	r.Rule = "one user method with parameter list in {(a), (a, b = 1), (a, k: 2), (v:, v2:), (p, q)} and body in {probe+return the parameter, a.to_s, a + 1, a.upcase, early `return` of another type}; " +
		"1-3 call sites (thorough: 4) with every tuple of argument types over {Integer, String, NilClass, Float}; arrangements: definition before the calls, after the calls, calls inside another method, a second user method calling the first; " +
		"oracles: (i) the parameter's type inside the body and in the -i signature = union of the argument types at all call sites (plus the default's type), (ii) the call's type = type of the body result incl. explicit return, " +
		"(iii) a body operation undefined for every argument class is reported on its row, one defined for all of them is not. non-trivial = all"
	r.Assumptions = []string{"core configuration; Integer/Float/String/NilClass method tables as shipped (upcase: String only; +: Integer/Float with Integer|Float, String with String)"}
	tyLit := map[string]string{"Integer": "1", "String": "\"s\"", "NilClass": "nil", "Float": "2.5"}
	tys := []string{"Integer", "String", "NilClass", "Float"}
	union := func(ts []string) string {
		seen := map[string]bool{}
		var u []string
		for _, t := range ts {
			if !seen[t] {
				seen[t] = true
				u = append(u, t)
			}
		}
		if len(u) == 1 {
			return u[0]
		}
		return canonType("Union<" + strings.Join(u, " ") + ">")
	}
	type probe struct {
		row        int
		want       string // expected type ("" none)
		wantDiag   int    // 1 must have diagnostic, 0 must not, -1 don't care
		what       string
		isSigParam bool
	}
	type prog struct {
		src    string
		probes []probe
		feat   string
	}
	var progs []prog
	maxSites := 3
	if thorough {
		maxSites = 4
	}
	var tuples [][]string
	var rec func(cur []string)
	rec = func(cur []string) {
		if len(cur) > 0 {
			tuples = append(tuples, append([]string{}, cur...))
		}
		if len(cur) == maxSites {
			return
		}
		for _, t := range tys {
			// combinations with repetition in non-decreasing order are enough for the union; order matters for
			// "first call site" effects, so keep all orders up to 2 sites and sorted ones beyond
			if len(cur) >= 2 && t < cur[len(cur)-1] {
				continue
			}
			rec(append(cur, t))
		}
	}
	rec(nil)
	bodies := []string{"ret-param", "to_s", "plus", "upcase", "early-return", "as-argument"}
	arrangements := []string{"def-first", "calls-first", "calls-in-method", "via-second-method", "endless-def-between"}
	for _, tu := range tuples {
		u := union(tu)
		for _, body := range bodies {
			for _, arr := range arrangements {
				if !thorough && arr != "def-first" && len(tu) > 2 {
					continue
				}
				var sb strings.Builder
				row := 0
				var probes []probe
				line := func(s string) { sb.WriteString(s + "\n"); row++ }
				defn := func() {
					line("def f(a)")
					defRow := row
					line("  dbtp a")
					probes = append(probes, probe{row: row, want: u, wantDiag: -1, what: "param-in-body"})
					switch body {
					case "ret-param":
						line("  a")
					case "to_s":
						line("  a.to_s")
					case "plus":
						line("  a + 1")
						allNum, allBad := true, true
						for _, t := range tu {
							if t == "Integer" || t == "Float" {
								allBad = false
							} else {
								allNum = false
							}
						}
						if allNum {
							probes = append(probes, probe{row: row, wantDiag: 0, what: "body-op-defined-for-all"})
						} else if allBad {
							probes = append(probes, probe{row: row, wantDiag: 1, what: "body-op-fails-for-all"})
						}
					case "upcase":
						line("  a.upcase")
						allStr, noStr := true, true
						for _, t := range tu {
							if t == "String" {
								noStr = false
							} else {
								allStr = false
							}
						}
						if allStr {
							probes = append(probes, probe{row: row, wantDiag: 0, what: "body-op-defined-for-all"})
						} else if noStr {
							probes = append(probes, probe{row: row, wantDiag: 1, what: "body-op-fails-for-all"})
						}
					case "early-return":
						line("  return 2.5 if a == 1")
						line("  :sym")
					case "as-argument":
						// the parameter is the argument of a configured operation that takes a String
						line("  \"id\" + a")
						allStr, noStr := true, true
						for _, t := range tu {
							if t == "String" {
								noStr = false
							} else {
								allStr = false
							}
						}
						if allStr {
							probes = append(probes, probe{row: row, wantDiag: 0, what: "body-arg-accepted-for-all"})
						} else if noStr {
							probes = append(probes, probe{row: row, wantDiag: 1, what: "body-arg-rejected-for-all"})
						}
					}
					line("end")
					probes = append(probes, probe{row: defRow, want: u, wantDiag: -1, what: "signature-param", isSigParam: true})
				}
				retWant := ""
				switch body {
				case "ret-param":
					retWant = u
				case "to_s":
					retWant = "String"
				case "early-return":
					retWant = canonType("Union<Float Symbol>")
				}
				calls := func(indent string, probeResult bool) {
					for i, t := range tu {
						if probeResult && i == 0 {
							line(indent + "dbtp f(" + tyLit[t] + ")")
							if retWant != "" {
								probes = append(probes, probe{row: row, want: retWant, wantDiag: -1, what: "call-result"})
							}
						} else {
							line(indent + "f(" + tyLit[t] + ")")
						}
					}
				}
				switch arr {
				case "def-first":
					defn()
					calls("", true)
				case "calls-first":
					calls("", true)
					defn()
				case "calls-in-method":
					defn()
					line("def g")
					calls("  ", false)
					line("  1")
					line("end")
					line("g")
				case "endless-def-between":
					// an endless definition without parameter list between the call sites
					defn()
					for i, t := range tu {
						if i == 1 || len(tu) == 1 {
							line("def zlabel = \"x\"")
						}
						if i == 0 {
							line("dbtp f(" + tyLit[t] + ")")
							if retWant != "" {
								probes = append(probes, probe{row: row, want: retWant, wantDiag: -1, what: "call-result"})
							}
						} else {
							line("f(" + tyLit[t] + ")")
						}
					}
					line("def zlast = f(" + tyLit[tu[len(tu)-1]] + ")")
				case "via-second-method":
					defn()
					line("def h(z)")
					line("  f(z)")
					line("end")
					for _, t := range tu {
						line("h(" + tyLit[t] + ")")
					}
				}
				progs = append(progs, prog{sb.String(), probes, fmt.Sprintf("(a):%s:%s:sites=%d", body, arr, len(tu))})
			}
		}
	}
	// other parameter lists (single arrangement: definition first), two call sites
	for _, t1 := range tys {
		for _, t2 := range tys {
			l1, l2 := tyLit[t1], tyLit[t2]
			mk := func(params string, body []string, calls []string, want map[int]string, feat string) {
				var sb strings.Builder
				row := 0
				var probes []probe
				line := func(s string) { sb.WriteString(s + "\n"); row++ }
				line("def f(" + params + ")")
				for i, b := range body {
					line("  " + b)
					if w, ok := want[i]; ok {
						probes = append(probes, probe{row: row, want: w, wantDiag: -1, what: "param-in-body"})
					}
				}
				line("end")
				for _, c := range calls {
					line(c)
				}
				progs = append(progs, prog{sb.String(), probes, feat})
			}
			mk("a, b = 1", []string{"dbtp a", "dbtp b", "a"}, []string{"f(" + l1 + ")", "f(" + l2 + ", " + l1 + ")"},
				map[int]string{0: union([]string{t1, t2}), 1: union([]string{"Integer", t1})}, "(a, b = 1):two-sites")
			mk("a, k: 2", []string{"dbtp a", "dbtp k", "a"}, []string{"f(" + l1 + ")", "f(" + l2 + ", k: " + l1 + ")"},
				map[int]string{0: union([]string{t1, t2}), 1: union([]string{"Integer", t1})}, "(a, k: 2):two-sites")
			mk("v:, v2:", []string{"dbtp v", "dbtp v2", "v"}, []string{"f(v: " + l1 + ", v2: " + l2 + ")", "f(v2: " + l1 + ", v: " + l2 + ")"},
				map[int]string{0: union([]string{t1, t2}), 1: union([]string{t2, t1})}, "(v:, v2:):two-sites")
			mk("m, n", []string{"dbtp m", "dbtp n", "n"}, []string{"f(" + l1 + ", " + l2 + ")", "f(" + l2 + ", " + l2 + ")"},
				map[int]string{0: union([]string{t1, t2}), 1: t2}, "(m, n):two-sites")
			// a parameter named like a configured top-level method (Kernel#p)
			mk("p, q", []string{"dbtp p", "dbtp q", "q"}, []string{"f(" + l1 + ", " + l2 + ")", "f(" + l2 + ", " + l2 + ")"},
				map[int]string{0: union([]string{t1, t2}), 1: t2}, "(p, q):two-sites")
		}
	}
	// call chains: f(a) is reached directly with one type and through 1-3 intermediate methods with another;
	// the direct site sits at top level before the definitions, at top level after them, or inside a helper
	// method; definitions are written callee-first or caller-first
	maxDepth := 3
	for _, t1 := range tys {
		for _, t2 := range tys {
			for depth := 1; depth <= maxDepth; depth++ {
				for _, direct := range []string{"top-before", "top-after", "in-helper"} {
					for _, order := range []string{"callee-first", "caller-first"} {
						if !thorough && order == "caller-first" && direct != "top-after" {
							continue
						}
						var sb strings.Builder
						row := 0
						var probes []probe
						line := func(s string) { sb.WriteString(s + "\n"); row++ }
						u := union([]string{t1, t2})
						defF := func() {
							line("def f(a)")
							probes = append(probes, probe{row: row, want: u, wantDiag: -1, what: "signature-param", isSigParam: true})
							line("  dbtp a")
							probes = append(probes, probe{row: row, want: u, wantDiag: -1, what: "param-in-body"})
							line("  a")
							line("end")
						}
						defChain := func(k int) {
							callee := "f"
							if k > 1 {
								callee = fmt.Sprintf("c%d", k-1)
							}
							line(fmt.Sprintf("def c%d(q%d)", k, k))
							line(fmt.Sprintf("  %s(q%d)", callee, k))
							line("end")
						}
						if direct == "top-before" {
							line("f(" + tyLit[t1] + ")")
						}
						if order == "callee-first" {
							defF()
							for k := 1; k <= depth; k++ {
								defChain(k)
							}
						} else {
							for k := depth; k >= 1; k-- {
								defChain(k)
							}
							defF()
						}
						switch direct {
						case "top-after":
							line("f(" + tyLit[t1] + ")")
						case "in-helper":
							line("def helper")
							line("  f(" + tyLit[t1] + ")")
							line("  1")
							line("end")
							line("helper")
						}
						line(fmt.Sprintf("c%d(%s)", depth, tyLit[t2]))
						progs = append(progs, prog{sb.String(), probes, fmt.Sprintf("(a):chain:depth=%d:direct=%s:%s", depth, direct, order)})
					}
				}
			}
		}
	}
	cases := make([]*engine.Case, len(progs))
	for i, p := range progs {
		cases[i] = &engine.Case{Cfg: "core", Files: map[string]string{"t.rb": p.src}, Argv: []string{"t.rb", "-i"}}
	}
	res := x.pool.RunAll(cases)
	type viol struct {
		idx  int
		desc string
	}
	bySig := map[string][]viol{}
	var recs []execRec
	nProbes := 0
	for i, rr := range res {
		r.Evaluations++
		r.Transitions++
		r.Nontrivial++
		p := progs[i]
		if rr.Abnormal() {
			s := "abnormal:" + outOf(rr)
			bySig[s] = append(bySig[s], viol{i, outOf(rr)})
			continue
		}
		r.Outcome(rr.Stdout)
		if i%83 == 0 {
			recs = append(recs, execRec{"core", cases[i].Files, cases[i].Argv, rr.Stdout})
		}
		diag := map[int][]string{}
		sigHint := map[int]string{}
		for _, l := range strings.Split(strings.TrimSuffix(rr.Stdout, "\n"), "\n") {
			isHint := strings.HasPrefix(l, "@")
			q := strings.SplitN(strings.TrimPrefix(l, "@"), ":::", 3)
			if len(q) != 3 {
				continue
			}
			var row int
			fmt.Sscanf(q[1], "%d", &row)
			if isHint {
				if strings.HasPrefix(q[2], "(") {
					sigHint[row] = q[2]
				}
				continue
			}
			diag[row] = append(diag[row], q[2])
		}
		for _, pb := range p.probes {
			nProbes++
			recsOn := diag[pb.row]
			switch {
			case pb.isSigParam:
				h := sigHint[pb.row]
				// (T) -> R [i/public]: first parameter's rendering
				par := ""
				if j := strings.Index(h, ") ->"); j > 0 {
					par = h[1:j]
				}
				if canonType(par) != pb.want {
					s := fmt.Sprintf("c15:%s:%s:got=%s:want=%s", p.feat, pb.what, canonType(par), pb.want)
					bySig[s] = append(bySig[s], viol{i, fmt.Sprintf("-i signature %q: parameter should be %q", h, pb.want)})
				}
			case pb.want != "":
				got := ""
				if len(recsOn) > 0 {
					got = canonType(recsOn[len(recsOn)-1])
				}
				if got != pb.want {
					s := fmt.Sprintf("c15:%s:%s:got=%s:want=%s", p.feat, pb.what, got, pb.want)
					bySig[s] = append(bySig[s], viol{i, fmt.Sprintf("row %d (%s): ti prints %q, reference %q", pb.row, pb.what, got, pb.want)})
				}
			case pb.wantDiag == 1 && len(recsOn) == 0:
				s := fmt.Sprintf("c15:%s:%s", p.feat, pb.what)
				bySig[s] = append(bySig[s], viol{i, fmt.Sprintf("row %d: operation fails for every argument type but is not reported", pb.row)})
			case pb.wantDiag == 0 && len(recsOn) > 0:
				s := fmt.Sprintf("c15:%s:%s", p.feat, pb.what)
				bySig[s] = append(bySig[s], viol{i, fmt.Sprintf("row %d: operation is defined for every argument type but reported: %q", pb.row, recsOn)})
			}
		}
	}
	r.States = r.Evaluations
	r.Extra["probes"] = nProbes
	r.Extra["mismatching_signatures"] = len(bySig)
	if dbg := os.Getenv("VERIF_DEBUG_SIGS"); dbg != "" {
		var sb strings.Builder
		for s, vs := range bySig {
			fmt.Fprintf(&sb, "%d\t%s\t%s\t%s\n", len(vs), s, vs[0].desc, strings.ReplaceAll(progs[vs[0].idx].src, "\n", "⏎"))
		}
		os.WriteFile(dbg, []byte(sb.String()), 0o644)
	}
	var sigs []string
	for s := range bySig {
		sigs = append(sigs, s)
	}
	sort.Strings(sigs)
	budget := 60
	for _, s := range sigs {
		vs := bySig[s]
		v := vs[0]
		if r.Known(s) == nil {
			if budget <= 0 {
				r.Unconfirmed = append(r.Unconfirmed, s+" (confirmation budget exhausted)")
				continue
			}
			budget--
			rr := x.realStable("core", cases[v.idx].Files, cases[v.idx].Argv)
			if rr.Stdout != res[v.idx].Stdout {
				r.Unconfirmed = append(r.Unconfirmed, s+" (real binary prints something else)")
				continue
			}
			r.Validated++
		}
		for i := range vs {
			if i == 0 {
				r.Report(s, fmt.Sprintf("%s (%d programs): %s", s, len(vs), v.desc),
					ReplayDoc{Cfg: "inline", Files: cases[v.idx].Files, Argv: cases[v.idx].Argv, Observed: head(res[v.idx].Stdout, 1200), Expected: v.desc, Note: "configuration: the 21 core files of /repo/test/.ti-config"})
			} else {
				r.Report(s, "", nil)
			}
		}
	}
	x.validateAgainstReal(recs, 30)
	r.Bounds = map[string]any{"programs": len(progs), "max_call_sites": maxSites, "argument_types": tys, "bodies": bodies, "arrangements": arrangements}
	r.Sample(map[string]any{"program": progs[len(progs)/2].src, "features": progs[len(progs)/2].feat})
	r.Sample(map[string]any{"program": progs[len(progs)-1].src, "features": progs[len(progs)-1].feat})
}
