package main

import (
	"fmt"
	"os"
	"path/filepath"
	"regexp"
	"strconv"
	"strings"

	"verif/internal/engine"
	"verif/internal/gen"
)

// timc goldens : run all golden tests of $VERIF_REPO/test on the in-process engine (no watchdog, so it
// is immune to machine load) and compare with the expected output written in the _test.go files.
func init() {
	extra["goldens"] = func(args []string) int {
		bins, err := engine.Build()
		if err != nil {
			fmt.Println("HARNESS-ERROR", err)
			return 2
		}
		pool := engine.NewPool(bins, 8)
		defer pool.Close()
		corpus := gen.Corpus(engine.RepoRoot)
		expRe := regexp.MustCompile("(?s)expectedOutput\\s*:?=\\s*(\"(?:[^\"\\\\]|\\\\.)*\"|`[^`]*`)")
		var cases []*engine.Case
		var exps []string
		var names []string
		for _, p := range corpus {
			tf := filepath.Join(engine.RepoRoot, "test", strings.TrimSuffix(strings.TrimPrefix(p.Name, "./"), ".rb")+"_test.go")
			b, err := os.ReadFile(tf)
			if err != nil {
				continue
			}
			m := expRe.FindSubmatch(b)
			if m == nil {
				fmt.Println("no expectedOutput in", tf)
				continue
			}
			exp, err := strconv.Unquote(string(m[1]))
			if err != nil {
				fmt.Println("cannot unquote expectation in", tf)
				continue
			}
			cases = append(cases, &engine.Case{Files: map[string]string{p.Name: p.Src}, Argv: append([]string{p.Name}, p.Args...)})
			exps = append(exps, exp)
			names = append(names, p.Name)
		}
		res := pool.RunAll(cases)
		fail := 0
		for i, r := range res {
			got := outOf(r)
			if strings.TrimSpace(got) != strings.TrimSpace(exps[i]) {
				fail++
				if fail <= 10 {
					fmt.Printf("FAIL %s %v\n--- expected\n%s\n--- got\n%s\n", names[i], cases[i].Argv, head(exps[i], 600), head(got, 600))
				}
			}
		}
		fmt.Printf("goldens: %d run, %d failed\n", len(res), fail)
		if fail > 0 {
			return 1
		}
		return 0
	}
}
