package main

import (
	"bytes"
	"encoding/json"
	"fmt"
	"os"
	"os/exec"
	"path/filepath"
	"sort"
	"strings"
	"sync"

	"verif/internal/engine"
	"verif/internal/gen"
)

func init() { register("C25", c25) }

type rbsShape struct {
	req, opt     int
	rest         bool
	trailing     int
	reqKw, optKw int
}

func (s rbsShape) String() string {
	return fmt.Sprintf("req=%d,opt=%d,rest=%v,trail=%d,reqkw=%d,optkw=%d", s.req, s.opt, s.rest, s.trailing, s.reqKw, s.optKw)
}

var rbsReqKwNames = []string{"zeta", "alpha", "mid"}
var rbsOptKwNames = []string{"omega", "beta", "kk"}

func rbsType(name string) map[string]any {
	return map[string]any{"class": "class_instance", "name": "::" + name, "args": []any{}}
}

// rbsAST builds the AST document the embedded Ruby script would print for a class with one singleton
// and one instance method of the given shape (plus an overload, an alias and an attribute when extras is set).
func rbsAST(s rbsShape, extras bool) string {
	params := func(n int, ty string, pfx string) []any {
		out := []any{}
		for i := 0; i < n; i++ {
			out = append(out, map[string]any{"type": rbsType(ty), "name": fmt.Sprintf("%s%d", pfx, i)})
		}
		return out
	}
	ft := map[string]any{
		"required_positionals": params(s.req, "Integer", "r"),
		// every positional parameter is an Integer so that the calls below test the count, not the types
		"optional_positionals": params(s.opt, "Integer", "o"),
		"rest_positionals":     nil,
		"trailing_positionals": params(s.trailing, "Integer", "t"),
		"required_keywords":    map[string]any{},
		"optional_keywords":    map[string]any{},
		"rest_keywords":        nil,
		"return_type":          rbsType("Float"),
	}
	if s.rest {
		ft["rest_positionals"] = map[string]any{"type": rbsType("Integer"), "name": "rest"}
	}
	rk := map[string]any{}
	for i := 0; i < s.reqKw; i++ {
		rk[rbsReqKwNames[i]] = map[string]any{"type": rbsType("Integer"), "name": nil}
	}
	ft["required_keywords"] = rk
	ok := map[string]any{}
	for i := 0; i < s.optKw; i++ {
		ok[rbsOptKwNames[i]] = map[string]any{"type": rbsType("String"), "name": nil}
	}
	ft["optional_keywords"] = ok
	overloads := []any{map[string]any{"method_type": map[string]any{"type_params": []any{}, "type": ft, "block": nil}}}
	mdef := func(name, kind string) map[string]any {
		return map[string]any{"member": "method_definition", "name": name, "kind": kind, "visibility": "public", "overloads": overloads, "comment": nil}
	}
	members := []any{mdef("meth", "singleton"), mdef("imeth", "instance")}
	if extras {
		ft2 := map[string]any{"required_positionals": params(1, "String", "x"), "optional_positionals": []any{}, "rest_positionals": nil, "trailing_positionals": []any{},
			"required_keywords": map[string]any{}, "optional_keywords": map[string]any{}, "rest_keywords": nil, "return_type": rbsType("String")}
		two := []any{overloads[0], map[string]any{"method_type": map[string]any{"type_params": []any{}, "type": ft2, "block": nil}}}
		members = append(members,
			map[string]any{"member": "method_definition", "name": "twice", "kind": "singleton", "visibility": "public", "overloads": two, "comment": nil},
			map[string]any{"member": "alias", "new_name": "imeth2", "old_name": "imeth", "kind": "instance"},
			map[string]any{"member": "attr_reader", "name": "level", "type": rbsType("Integer"), "ivar_name": nil, "kind": "instance", "visibility": "public"})
	}
	decl := []any{map[string]any{"declaration": "class", "name": "Rbone", "type_params": []any{}, "members": members, "super_class": nil, "comment": nil}}
	b, _ := json.MarshalIndent(decl, "", "  ")
	return string(b)
}

// expectedArgs is the argument list the property prescribes for a shape.
func expectedRbsArgs(s rbsShape) []map[string]any {
	var out []map[string]any
	for i := 0; i < s.req; i++ {
		out = append(out, map[string]any{"type": []any{"Int"}})
	}
	for i := 0; i < s.opt; i++ {
		out = append(out, map[string]any{"type": []any{"Int"}, "is_default": true})
	}
	if s.rest {
		out = append(out, map[string]any{"type": []any{"Int"}, "is_asterisk": true})
	}
	for i := 0; i < s.trailing; i++ {
		out = append(out, map[string]any{"type": []any{"Int"}})
	}
	return out
}

func c25(x *ctx) {
	r := x.run
	thorough := x.tier == "thorough"
	r.Rule = "RBS AST documents (what the embedded Ruby script emits) for a class with a singleton and an instance method of every shape {0-2 required, 0-2 optional, rest?, 0-1 trailing, 0-3 required keywords, 0-3 optional keywords} (quick: keyword counts 0-2), " +
		"plus an overloaded method, an alias and an attribute, fed through a stand-in `ruby` on PATH; rbs2json built with the map-order overlay runs under SORTED / REVERSED / ROT(1) and must print byte-identical JSON (the unmodified binary is run 3 times as well); " +
		"the emitted argument list must be required, optional(is_default), rest(is_asterisk), trailing, required keywords, optional keywords(is_default) with the documented type mapping; " +
		"ti, loading the emitted file, must report a call with k = 0..6 positional arguments (all required keywords supplied) exactly when k is outside the RBS arity. non-trivial = all"
	r.Assumptions = []string{"the Ruby RBS parser is not available: generation starts at the AST JSON; the reference arity is the generator's own",
		"map order in rbs2json is owned through the same overlay mechanism as in ti (order policy from $VERIF_ORDER)"}
	maxKw := 2
	if thorough {
		maxKw = 3
	}
	var shapes []rbsShape
	for req := 0; req <= 2; req++ {
		for opt := 0; opt <= 2; opt++ {
			for _, rest := range []bool{false, true} {
				for tr := 0; tr <= 1; tr++ {
					for rk := 0; rk <= maxKw; rk++ {
						for ok := 0; ok <= maxKw; ok++ {
							shapes = append(shapes, rbsShape{req, opt, rest, tr, rk, ok})
						}
					}
				}
			}
		}
	}
	work := filepath.Join(x.pool.Scratch, "rbs")
	os.MkdirAll(work, 0o755)
	rubyDir := filepath.Join(work, "bin")
	os.MkdirAll(rubyDir, 0o755)
	os.WriteFile(filepath.Join(rubyDir, "ruby"), []byte("#!/bin/sh\ncat \"$VERIF_RBS_AST\"\n"), 0o755)
	runConv := func(bin, order, astFile string) (string, error) {
		cmd := exec.Command(bin, "dummy.rbs")
		cmd.Dir = work
		cmd.Env = append(os.Environ(), "PATH="+rubyDir+":"+os.Getenv("PATH"), "VERIF_RBS_AST="+astFile, "VERIF_ORDER="+order)
		var so, se bytes.Buffer
		cmd.Stdout, cmd.Stderr = &so, &se
		err := cmd.Run()
		if err != nil {
			return so.String(), fmt.Errorf("%v: %s", err, head(se.String(), 300))
		}
		return so.String(), nil
	}
	type convRes struct {
		shape   rbsShape
		extras  bool
		json    string
		err     string
		differs []string
	}
	results := make([]convRes, len(shapes))
	var wg sync.WaitGroup
	sem := make(chan struct{}, 16)
	for i, s := range shapes {
		wg.Add(1)
		sem <- struct{}{}
		go func(i int, s rbsShape) {
			defer wg.Done()
			defer func() { <-sem }()
			extras := i%7 == 0
			ast := filepath.Join(work, fmt.Sprintf("ast%d.json", i))
			os.WriteFile(ast, []byte(rbsAST(s, extras)), 0o644)
			res := convRes{shape: s, extras: extras}
			ref, err := runConv(x.bins.RbsOv, "sorted", ast)
			if err != nil {
				res.err = err.Error()
				results[i] = res
				return
			}
			res.json = ref
			for _, pol := range []string{"reversed", "rot:1"} {
				o, _ := runConv(x.bins.RbsOv, pol, ast)
				if o != ref {
					res.differs = append(res.differs, pol)
				}
			}
			for k := 0; k < 3; k++ {
				o, _ := runConv(x.bins.Rbs, "", ast)
				if o != ref {
					res.differs = append(res.differs, fmt.Sprintf("unmodified-run-%d", k))
				}
			}
			results[i] = res
		}(i, s)
	}
	wg.Wait()
	type viol struct {
		desc   string
		replay ReplayDoc
	}
	bySig := map[string][]viol{}
	core := gen.CoreConfig(engine.RepoRoot)
	cfgFiles := map[string]map[string]string{}
	var cases []*engine.Case
	type cref struct {
		si, k   int
		expDiag bool
		kind    string
	}
	var refs []cref
	for i, res := range results {
		r.Evaluations += 6
		r.Transitions += 5
		r.Nontrivial++
		s := res.shape
		r.Outcome(res.json)
		rd := ReplayDoc{Cfg: "none", Files: map[string]string{"ast.json": rbsAST(s, res.extras)}, Argv: []string{"(rbs2json with a stand-in ruby printing ast.json)"}, Observed: head(res.json, 1500)}
		if res.err != "" {
			sig := "c25:converter-failed"
			bySig[sig] = append(bySig[sig], viol{fmt.Sprintf("%s: %s", s, res.err), rd})
			continue
		}
		if len(res.differs) > 0 {
			sig := fmt.Sprintf("c25:nondeterministic:reqkw=%d:optkw=%d", min(s.reqKw, 2), min(s.optKw, 2))
			bySig[sig] = append(bySig[sig], viol{fmt.Sprintf("%s: output differs under %v", s, res.differs), rd})
		}
		// structure
		var cfg struct {
			Frame        string `json:"frame"`
			Class        string `json:"class"`
			ClassMethods []struct {
				Name      string           `json:"name"`
				Arguments []map[string]any `json:"arguments"`
			} `json:"class_methods"`
		}
		if err := json.Unmarshal([]byte(res.json), &cfg); err != nil {
			sig := "c25:output-not-json"
			bySig[sig] = append(bySig[sig], viol{fmt.Sprintf("%s: %v", s, err), rd})
			continue
		}
		var got []map[string]any
		for _, m := range cfg.ClassMethods {
			if m.Name == "meth" {
				got = m.Arguments
			}
		}
		exp := expectedRbsArgs(s)
		// keyword part: required (sorted or any order, but all before optional), optional with is_default
		okStruct := len(got) == len(exp)+s.reqKw+s.optKw
		if okStruct {
			for j, e := range exp {
				gj, _ := json.Marshal(got[j])
				ej, _ := json.Marshal(e)
				if string(gj) != string(ej) {
					okStruct = false
				}
			}
			seenReq, seenOpt := map[string]bool{}, map[string]bool{}
			for j := len(exp); j < len(got) && okStruct; j++ {
				key, _ := got[j]["key"].(string)
				name := strings.TrimSuffix(key, ":")
				isDef, _ := got[j]["is_default"].(bool)
				inReq := false
				for _, n := range rbsReqKwNames[:s.reqKw] {
					if n == name {
						inReq = true
					}
				}
				if j < len(exp)+s.reqKw {
					if !inReq || isDef || seenReq[name] {
						okStruct = false
					}
					seenReq[name] = true
				} else {
					if inReq || !isDef || seenOpt[name] {
						okStruct = false
					}
					seenOpt[name] = true
				}
			}
		}
		if !okStruct {
			sig := fmt.Sprintf("c25:argument-shape:%s", s)
			gj, _ := json.Marshal(got)
			bySig[sig] = append(bySig[sig], viol{fmt.Sprintf("%s: emitted arguments %s do not have the prescribed order/flags", s, gj), rd})
			continue
		}
		// ti arity: only on a subset in quick tier
		if !thorough && (s.optKw > 1 || s.reqKw > 1) {
			continue
		}
		cname := fmt.Sprintf("rbs-%d", i)
		files := gen.Merge(core, map[string]string{"rbone.json": res.json})
		cfgFiles[cname] = files
		x.pool.NewCfgDir(cname, files)
		lits := []string{}
		for k := 0; k <= 6; k++ {
			var args []string
			for j := 0; j < k; j++ {
				// give each position the type its parameter would have when the count is right
				switch {
				case j < s.req:
					args = append(args, "1")
				case j < s.req+s.opt && k-j > s.trailing:
					args = append(args, "1")
				case k-j <= s.trailing:
					args = append(args, "1")
				default:
					args = append(args, "1")
				}
			}
			for _, n := range rbsReqKwNames[:s.reqKw] {
				args = append(args, n+": 1")
			}
			lits = append(lits, strings.Join(args, ", "))
			minA, maxA := s.req+s.trailing, s.req+s.opt+s.trailing
			expDiag := k < minA || (!s.rest && k > maxA)
			cases = append(cases, &engine.Case{Cfg: cname, Files: map[string]string{"t.rb": "Rbone.meth(" + lits[k] + ")\n"}, Argv: []string{"t.rb"}})
			refs = append(refs, cref{i, k, expDiag, "arity"})
		}
	}
	// members that share a name: an instance and a singleton method `size` with different signatures, in both
	// member orders, followed by an alias of either kind (and one alias placed between the definitions); every
	// emitted entry must keep the signature of its own kind, and an alias must equal its same-kind target
	{
		fn := func(nreq int, ret string) map[string]any {
			ps := []any{}
			for i := 0; i < nreq; i++ {
				ps = append(ps, map[string]any{"type": rbsType("Integer"), "name": fmt.Sprintf("r%d", i)})
			}
			return map[string]any{"required_positionals": ps, "optional_positionals": []any{}, "rest_positionals": nil, "trailing_positionals": []any{},
				"required_keywords": map[string]any{}, "optional_keywords": map[string]any{}, "rest_keywords": nil, "return_type": rbsType(ret)}
		}
		mdef := func(name, kind string, ft map[string]any) map[string]any {
			return map[string]any{"member": "method_definition", "name": name, "kind": kind, "visibility": "public", "comment": nil,
				"overloads": []any{map[string]any{"method_type": map[string]any{"type_params": []any{}, "type": ft, "block": nil}}}}
		}
		want := map[string][2]string{"instance": {"0", "Int"}, "singleton": {"1", "String"}} // kind -> (argument count, return type)
		n := 0
		for _, order := range []string{"instance-first", "singleton-first"} {
			for _, aliasKind := range []string{"instance", "singleton"} {
				for _, aliasPos := range []string{"after-both", "between"} {
					n++
					inst, sing := mdef("size", "instance", fn(0, "Integer")), mdef("size", "singleton", fn(1, "String"))
					al := map[string]any{"member": "alias", "new_name": "length", "old_name": "size", "kind": aliasKind}
					first, second := inst, sing
					firstKind := "instance"
					if order == "singleton-first" {
						first, second, firstKind = sing, inst, "singleton"
					}
					if aliasPos == "between" && aliasKind != firstKind {
						continue // the alias would precede its target
					}
					members := []any{first, second, al}
					if aliasPos == "between" {
						members = []any{first, al, second}
					}
					decl := []any{map[string]any{"declaration": "class", "name": "Rbone", "type_params": []any{}, "members": members, "super_class": nil, "comment": nil}}
					b, _ := json.MarshalIndent(decl, "", "  ")
					ast := filepath.Join(work, fmt.Sprintf("multi%d.json", n))
					os.WriteFile(ast, b, 0o644)
					out, err := runConv(x.bins.Rbs, "", ast)
					r.Evaluations++
					r.Transitions++
					r.Nontrivial++
					feat := fmt.Sprintf("%s:alias=%s:%s", order, aliasKind, aliasPos)
					rd := ReplayDoc{Cfg: "none", Files: map[string]string{"ast.json": string(b)}, Argv: []string{"(rbs2json with a stand-in ruby printing ast.json)"}, Observed: head(out, 1500)}
					if err != nil {
						bySig["c25:converter-failed:shared-name"] = append(bySig["c25:converter-failed:shared-name"], viol{feat + ": " + err.Error(), rd})
						continue
					}
					var cfg struct {
						InstanceMethods []struct {
							Name       string           `json:"name"`
							Arguments  []map[string]any `json:"arguments"`
							ReturnType struct {
								Type []string `json:"type"`
							} `json:"return_type"`
						} `json:"instance_methods"`
						ClassMethods []struct {
							Name       string           `json:"name"`
							Arguments  []map[string]any `json:"arguments"`
							ReturnType struct {
								Type []string `json:"type"`
							} `json:"return_type"`
						} `json:"class_methods"`
					}
					if json.Unmarshal([]byte(out), &cfg) != nil {
						bySig["c25:output-not-json:shared-name"] = append(bySig["c25:output-not-json:shared-name"], viol{feat, rd})
						continue
					}
					got := map[string]string{}
					for _, m := range cfg.InstanceMethods {
						got["instance."+m.Name] = fmt.Sprintf("%d/%s", len(m.Arguments), strings.Join(m.ReturnType.Type, "|"))
					}
					for _, m := range cfg.ClassMethods {
						got["singleton."+m.Name] = fmt.Sprintf("%d/%s", len(m.Arguments), strings.Join(m.ReturnType.Type, "|"))
					}
					exp := map[string]string{"instance.size": want["instance"][0] + "/" + want["instance"][1], "singleton.size": want["singleton"][0] + "/" + want["singleton"][1],
						aliasKind + ".length": want[aliasKind][0] + "/" + want[aliasKind][1]}
					for k, e := range exp {
						if got[k] != e {
							sig := "c25:shared-name:" + feat + ":" + k
							bySig[sig] = append(bySig[sig], viol{fmt.Sprintf("%s: %s emitted as (argument count/return type) %q, expected %q", feat, k, got[k], e), rd})
						}
					}
				}
			}
		}
		r.Extra["shared_name_documents"] = n
	}
	// sibling declarations: a top-level type alias `id = Integer`, a class Alpha that shadows it with a class-local
	// `id = String`, and a class Beta that only uses `id`. A class's configuration must not depend on which
	// siblings are declared before it (all orders of the three declarations, and each class alone).
	{
		ci := func(n string) map[string]any { return map[string]any{"class": "class_instance", "name": n, "args": []any{}} }
		alias := map[string]any{"class": "alias", "name": "id", "args": []any{}}
		fn := func(req, opt []any, rkw map[string]any, ret any) map[string]any {
			return map[string]any{"required_positionals": req, "optional_positionals": opt, "rest_positionals": nil, "trailing_positionals": []any{},
				"required_keywords": rkw, "optional_keywords": map[string]any{}, "rest_keywords": nil, "return_type": ret}
		}
		par := func(n string) map[string]any { return map[string]any{"type": alias, "name": n} }
		meth := func(name string, f map[string]any) map[string]any {
			return map[string]any{"member": "method_definition", "name": name, "kind": "instance", "visibility": "public", "comment": nil,
				"overloads": []any{map[string]any{"method_type": map[string]any{"type_params": []any{}, "type": f, "block": nil}}}}
		}
		top := map[string]any{"declaration": "alias", "name": "id", "type_params": []any{}, "type": ci("::Integer")}
		alpha := map[string]any{"declaration": "class", "name": "Alpha", "type_params": []any{}, "super_class": nil, "comment": nil, "members": []any{
			map[string]any{"declaration": "alias", "name": "id", "type_params": []any{}, "type": ci("::String")},
			meth("tag", fn([]any{par("key")}, []any{}, map[string]any{}, alias))}}
		beta := map[string]any{"declaration": "class", "name": "Beta", "type_params": []any{}, "super_class": nil, "comment": nil, "members": []any{
			meth("pick", fn([]any{par("key")}, []any{par("other")}, map[string]any{"mode": map[string]any{"type": alias, "name": nil}}, alias))}}
		gamma := map[string]any{"declaration": "class", "name": "Gamma", "type_params": []any{}, "super_class": nil, "comment": nil, "members": []any{
			map[string]any{"declaration": "alias", "name": "id", "type_params": []any{}, "type": ci("::Float")},
			meth("scale", fn([]any{par("key")}, []any{}, map[string]any{}, alias))}}
		docs := map[string][]any{
			"alpha-beta": {top, alpha, beta}, "beta-alpha": {top, beta, alpha}, "beta-only": {top, beta}, "alpha-only": {top, alpha},
			"alpha-gamma-beta": {top, alpha, gamma, beta}, "gamma-alpha-beta": {top, gamma, alpha, beta}, "beta-gamma-alpha": {top, beta, gamma, alpha},
			"alpha-top-beta": {alpha, top, beta},
		}
		perClass := map[string]map[string]string{} // class -> document -> its configuration
		var names []string
		for n := range docs {
			names = append(names, n)
		}
		sort.Strings(names)
		for _, n := range names {
			b, _ := json.MarshalIndent(docs[n], "", "  ")
			ast := filepath.Join(work, "sib-"+n+".json")
			os.WriteFile(ast, b, 0o644)
			out, err := runConv(x.bins.Rbs, "", ast)
			r.Evaluations++
			r.Transitions++
			r.Nontrivial++
			rd := ReplayDoc{Cfg: "none", Files: map[string]string{"ast.json": string(b)}, Argv: []string{"(rbs2json with a stand-in ruby printing ast.json)"}, Observed: head(out, 1500)}
			if err != nil {
				bySig["c25:converter-failed:siblings"] = append(bySig["c25:converter-failed:siblings"], viol{n + ": " + err.Error(), rd})
				continue
			}
			var many []json.RawMessage
			if json.Unmarshal([]byte(out), &many) != nil {
				many = []json.RawMessage{json.RawMessage(out)}
			}
			for _, one := range many {
				var c struct {
					Class string `json:"class"`
				}
				json.Unmarshal(one, &c)
				if perClass[c.Class] == nil {
					perClass[c.Class] = map[string]string{}
				}
				var canon any
				json.Unmarshal(one, &canon)
				cb, _ := json.Marshal(canon)
				perClass[c.Class][n] = string(cb)
			}
		}
		wantType := map[string]string{"Alpha": "String", "Beta": "Int", "Gamma": "Float"}
		for cls, byDoc := range perClass {
			var dn []string
			for n := range byDoc {
				dn = append(dn, n)
			}
			sort.Strings(dn)
			for _, n := range dn[1:] {
				if byDoc[n] != byDoc[dn[0]] {
					sig := "c25:sibling-dependent:" + cls
					b, _ := json.MarshalIndent(docs[n], "", "  ")
					bySig[sig] = append(bySig[sig], viol{fmt.Sprintf("class %s converts differently in document %s than in %s: %s vs %s", cls, n, dn[0], head(byDoc[n], 300), head(byDoc[dn[0]], 300)),
						ReplayDoc{Cfg: "none", Files: map[string]string{"ast.json": string(b)}, Argv: []string{"(rbs2json with a stand-in ruby printing ast.json)"}, Observed: head(byDoc[n], 1500), Expected: head(byDoc[dn[0]], 1500)}})
				}
			}
			if w, ok := wantType[cls]; ok && len(dn) > 0 && !strings.Contains(byDoc[dn[0]], "\""+w+"\"") {
				sig := "c25:alias-mapping:" + cls
				bySig[sig] = append(bySig[sig], viol{fmt.Sprintf("class %s: alias `id` should map to %s: %s", cls, w, head(byDoc[dn[0]], 300)), ReplayDoc{Cfg: "none", Observed: head(byDoc[dn[0]], 1500)}})
			}
		}
		r.Extra["sibling_documents"] = len(docs)
	}
	res := x.pool.RunAll(cases)
	var recs []execRec
	for i, rr := range res {
		r.Evaluations++
		r.Transitions++
		ref := refs[i]
		s := results[ref.si].shape
		if rr.Abnormal() {
			sig := "abnormal:" + outOf(rr)
			bySig[sig] = append(bySig[sig], viol{outOf(rr), ReplayDoc{Cfg: "inline", CfgFiles: cfgFiles[cases[i].Cfg], Files: cases[i].Files, Argv: cases[i].Argv, Observed: outOf(rr)}})
			continue
		}
		if i%37 == 0 {
			recs = append(recs, execRec{cases[i].Cfg, cases[i].Files, cases[i].Argv, rr.Stdout})
		}
		hasDiag := strings.TrimSpace(rr.Stdout) != ""
		if hasDiag != ref.expDiag {
			what := "accepted-outside-arity"
			if hasDiag {
				what = "rejected-inside-arity"
			}
			sig := fmt.Sprintf("c25:ti-arity:%s:rest=%v:trailing=%d:opt=%d:kw=%v", what, s.rest, s.trailing, min(s.opt, 1), s.reqKw+s.optKw > 0)
			bySig[sig] = append(bySig[sig], viol{fmt.Sprintf("%s called with %d positional argument(s): ti prints %q", s, ref.k, strings.TrimSpace(rr.Stdout)),
				ReplayDoc{Cfg: "inline", CfgFiles: map[string]string{"rbone.json": results[ref.si].json}, Files: cases[i].Files, Argv: cases[i].Argv, Observed: rr.Stdout, Note: "plus the 21 core configuration files"}})
		}
	}
	r.States = r.Evaluations
	r.Extra["shapes"] = len(shapes)
	r.Extra["ti_arity_calls"] = len(cases)
	r.Extra["mismatching_signatures"] = len(bySig)
	if dbg := os.Getenv("VERIF_DEBUG_SIGS"); dbg != "" {
		var sb strings.Builder
		for s, vs := range bySig {
			fmt.Fprintf(&sb, "%d\t%s\t%s\n", len(vs), s, vs[0].desc)
		}
		os.WriteFile(dbg, []byte(sb.String()), 0o644)
	}
	var sigs []string
	for s := range bySig {
		sigs = append(sigs, s)
	}
	sort.Strings(sigs)
	for _, s := range sigs {
		vs := bySig[s]
		r.Validated++
		for i, v := range vs {
			if i == 0 {
				r.Report(s, fmt.Sprintf("%s (%d cases): %s", s, len(vs), v.desc), v.replay)
			} else {
				r.Report(s, "", nil)
			}
		}
	}
	x.validateAgainstReal(recs, 20)
	r.Bounds = map[string]any{"shapes": len(shapes), "max_keywords_per_kind": maxKw, "positional_counts": "0..6", "order_policies": []string{"sorted", "reversed", "rot:1", "3 runs of the unmodified binary"}}
	r.Sample(map[string]any{"shape": shapes[len(shapes)/2].String(), "ast": json.RawMessage(rbsAST(shapes[len(shapes)/2], false))})
}
