package main

import (
	"fmt"
	"strconv"
	"time"

	"verif/internal/engine"
)

func init() {
	extra["bench"] = func(args []string) int {
		n, w := 2000, 1
		if len(args) > 0 {
			n, _ = strconv.Atoi(args[0])
		}
		if len(args) > 1 {
			w, _ = strconv.Atoi(args[1])
		}
		cfg := ""
		if len(args) > 2 {
			cfg = args[2]
		}
		bins, err := engine.Build()
		if err != nil {
			fmt.Println(err)
			return 2
		}
		pool := engine.NewPool(bins, w)
		defer pool.Close()
		var cases []*engine.Case
		for i := 0; i < n; i++ {
			cases = append(cases, &engine.Case{Cfg: cfg, Files: map[string]string{"t.rb": "x = 1\ny = x + 2\ny.foo\n"}, Argv: []string{"t.rb", "-i"}})
		}
		t0 := time.Now()
		res := pool.RunAll(cases)
		el := time.Since(t0)
		var inner int64
		for _, r := range res {
			inner += r.WallNs
		}
		fmt.Printf("%d cases, %d workers: %.2fs wall, %.2f ms/case/worker, inner avg %.2f ms; out=%q\n", n, w, el.Seconds(), el.Seconds()*1000*float64(w)/float64(n), float64(inner)/1e6/float64(n), res[0].Stdout)
		return 0
	}
}
