package main

import (
	"fmt"
	"strings"

	"verif/internal/engine"
	"verif/internal/gen"
)

func init() { register("C14", c14) }

// c14: every permutation of the keyword arguments of a call must give the same output.
func c14(x *ctx) {
	r := x.run
	thorough := x.tier == "thorough"
	r.Rule = "methods (user-defined and configured) with K keyword parameters (required / defaulted), calls supplying every subset of the keys with Integer or String values, " +
		"optionally an unknown key and 0-1 positional; every permutation of the supplied keyword arguments is analysed and must print what the first permutation prints; " +
		"non-trivial = the base call prints at least one record"
	r.Assumptions = []string{"generated programs use the 21 core configuration files plus one generated class KW"}
	maxK := 3
	if thorough {
		maxK = 5
	}
	core := gen.CoreConfig(engine.RepoRoot)
	vals := []string{"", "1", "\"s\""} // absent, Integer, String
	kinds := []string{"req", "defInt", "defStr"}
	cfgFiles := map[string]map[string]string{}
	nDefs, nCalls := 0, 0
	x.metamorphic(func(emit func(*mItem)) {
		for K := 2; K <= maxK; K++ {
			nk := len(kinds)
			if K >= 4 {
				nk = 2
			}
			// parameter kind vectors
			total := 1
			for i := 0; i < K; i++ {
				total *= nk
			}
			for pv := 0; pv < total; pv++ {
				pk := make([]int, K)
				v := pv
				for i := 0; i < K; i++ {
					pk[i] = v % nk
					v /= nk
				}
				if K == 5 && pv%4 != 0 {
					continue // K=5: a quarter of the kind vectors (documented bound)
				}
				nDefs++
				for _, flavour := range []string{"user", "cfg"} {
					for npos := 0; npos <= 1; npos++ {
						// definition
						var def string
						cfg := "core"
						if flavour == "user" {
							var ps []string
							if npos == 1 {
								ps = append(ps, "p0")
							}
							var body []string
							for i := 0; i < K; i++ {
								switch kinds[pk[i]] {
								case "req":
									ps = append(ps, fmt.Sprintf("k%d:", i))
								case "defInt":
									ps = append(ps, fmt.Sprintf("k%d: 2", i))
								case "defStr":
									ps = append(ps, fmt.Sprintf("k%d: \"d\"", i))
								}
								body = append(body, fmt.Sprintf("  dbtp k%d", i))
							}
							def = "def m(" + strings.Join(ps, ", ") + ")\n" + strings.Join(body, "\n") + "\n  k0\nend\n"
						} else {
							var args []gen.CfgArg
							if npos == 1 {
								args = append(args, gen.CfgArg{Type: []string{"Int"}})
							}
							for i := 0; i < K; i++ {
								a := gen.CfgArg{Key: fmt.Sprintf("k%d:", i)}
								switch kinds[pk[i]] {
								case "req":
									a.Type = []string{"Int"}
								case "defInt":
									a.Type = []string{"DefaultInt"}
								case "defStr":
									a.Type = []string{"DefaultString"}
								}
								args = append(args, a)
							}
							cls := gen.CfgClass{Frame: "Builtin", Class: "KW", ClassMethods: []gen.CfgMethod{{Name: "m", Arguments: args, ReturnType: gen.CfgRet{Type: []string{"Int"}}}}}
							cfg = fmt.Sprintf("kw-%d-%d-%d", K, pv, npos)
							files := gen.Merge(core, map[string]string{"kw.json": cls.JSON()})
							cfgFiles[cfg] = files
							x.pool.NewCfgDir(cfg, files)
						}
						// supplied value vectors
						nv := 1
						for i := 0; i < K; i++ {
							nv *= len(vals)
						}
						for sv := 0; sv < nv; sv++ {
							var supplied []string
							v := sv
							for i := 0; i < K; i++ {
								if val := vals[v%len(vals)]; val != "" {
									supplied = append(supplied, fmt.Sprintf("k%d: %s", i, val))
								}
								v /= len(vals)
							}
							if K >= 4 && sv%3 != 0 {
								continue // K>=4: every third value vector (documented bound)
							}
							for unk := 0; unk <= 1; unk++ {
								sup := append([]string{}, supplied...)
								if unk == 1 {
									sup = append(sup, "zz: 1")
								}
								if len(sup) < 2 {
									continue
								}
								nCalls++
								perms := gen.Permutations(len(sup))
								mk := func(perm []int, parens bool) string {
									var as []string
									if npos == 1 {
										as = append(as, "1")
									}
									for _, j := range perm {
										as = append(as, sup[j])
									}
									recv := "m"
									if flavour == "cfg" {
										recv = "KW.m"
									}
									call := recv + "(" + strings.Join(as, ", ") + ")"
									if !parens {
										call = recv + " " + strings.Join(as, ", ")
									}
									return def + "r = " + call + "\ndbtp r\n"
								}
								for _, parens := range []bool{true, false} {
									if !parens && (K > 2 || flavour == "cfg") {
										continue
									}
									base := &engine.Case{Cfg: cfg, Files: map[string]string{"t.rb": mk(perms[0], parens)}, Argv: []string{"t.rb", "-i"}}
									bkey := fmt.Sprintf("%s|%d|%d|%d|%d|%d|%v", flavour, K, pv, npos, sv, unk, parens)
									for _, perm := range perms[1:] {
										perm := perm
										emit(&mItem{baseKey: bkey, base: base,
											variant: &engine.Case{Cfg: cfg, Files: map[string]string{"t.rb": mk(perm, parens)}, Argv: []string{"t.rb", "-i"}},
											sig: func(b, v string) string {
												return fmt.Sprintf("kwperm:%s:K=%d:%s", flavour, K, diffClass(b, v))
											},
											desc: fmt.Sprintf("keyword order %v of call %q", perm, sup)})
									}
								}
							}
						}
					}
				}
			}
		}
		// user-defined callees that collect keyword arguments in a double-splat parameter (alone, after a
		// positional, after a declared keyword): the collected hash, a lookup in it and the result of the
		// call are printed, and the result is used in an expression that produces a diagnostic
		splatVals := []string{"1", "\"s\"", "1.5"}
		maxS := 3
		if thorough {
			maxS = 4
		}
		shapes := []struct{ name, params, pos string }{
			{"splat", "**opts", ""},
			{"pos+splat", "p0, **opts", "1, "},
			{"kw+splat", "k0:, **opts", ""},
		}
		for K := 2; K <= maxS; K++ {
			nv := 1
			for i := 0; i < K; i++ {
				nv *= len(splatVals)
			}
			perms := gen.Permutations(K)
			for _, sh := range shapes {
				def := "def m(" + sh.params + ")\n  dbtp opts\n  opts[:k1]\nend\n"
				for sv := 0; sv < nv; sv++ {
					sup := make([]string, K)
					v := sv
					for i := 0; i < K; i++ {
						sup[i] = fmt.Sprintf("k%d: %s", i, splatVals[v%len(splatVals)])
						v /= len(splatVals)
					}
					nCalls++
					mk := func(perm []int) string {
						var as []string
						for _, j := range perm {
							as = append(as, sup[j])
						}
						return def + "r = m(" + sh.pos + strings.Join(as, ", ") + ")\ndbtp r\nq = 1 + r\n"
					}
					base := &engine.Case{Cfg: "core", Files: map[string]string{"t.rb": mk(perms[0])}, Argv: []string{"t.rb", "-i"}}
					bkey := fmt.Sprintf("splat|%s|%d|%d", sh.name, K, sv)
					shape := sh.name
					for _, perm := range perms[1:] {
						emit(&mItem{baseKey: bkey, base: base,
							variant: &engine.Case{Cfg: "core", Files: map[string]string{"t.rb": mk(perm)}, Argv: []string{"t.rb", "-i"}},
							sig: func(b, v string) string {
								return fmt.Sprintf("kwperm:user-%s:K=%d:%s", shape, K, diffClass(b, v))
							},
							desc: fmt.Sprintf("keyword order %v of call %q to def m(%s)", perm, sup, sh.params)})
					}
				}
			}
		}
		// keyword arguments passed to `yield` (and to a block's `call`): the block parameters the enclosing
		// method reports, and diagnostics inside the block that receives them, must not depend on their order
		for K := 2; K <= 3; K++ {
			nv := 1
			for i := 0; i < K; i++ {
				nv *= len(splatVals)
			}
			perms := gen.Permutations(K)
			for _, form := range []string{"yield", "yield-pos", "block-call"} {
				for sv := 0; sv < nv; sv++ {
					sup := make([]string, K)
					v := sv
					for i := 0; i < K; i++ {
						sup[i] = fmt.Sprintf("k%d: %s", i, splatVals[v%len(splatVals)])
						v /= len(splatVals)
					}
					nCalls++
					mk := func(perm []int) string {
						var as []string
						for _, j := range perm {
							as = append(as, sup[j])
						}
						args := strings.Join(as, ", ")
						switch form {
						case "yield-pos":
							return "def m\n  yield(7, " + args + ")\nend\nm do |bx, by|\n  bx.zork\n  by.zork\nend\n"
						case "block-call":
							return "def m(&blk)\n  blk.call(" + args + ")\nend\nm do |bx|\n  bx.zork\nend\n"
						}
						return "def m\n  yield(" + args + ")\nend\nm do |bx, by|\n  bx.zork\n  by.zork\nend\n"
					}
					base := &engine.Case{Cfg: "core", Files: map[string]string{"t.rb": mk(perms[0])}, Argv: []string{"t.rb", "-i"}}
					bkey := fmt.Sprintf("yield|%s|%d|%d", form, K, sv)
					form := form
					for _, perm := range perms[1:] {
						emit(&mItem{baseKey: bkey, base: base,
							variant: &engine.Case{Cfg: "core", Files: map[string]string{"t.rb": mk(perm)}, Argv: []string{"t.rb", "-i"}},
							sig: func(b, v string) string {
								return fmt.Sprintf("kwperm:%s:K=%d:%s", form, K, diffClass(b, v))
							},
							desc: fmt.Sprintf("keyword order %v of %q passed through %s", perm, sup, form)})
					}
				}
			}
		}
	}, &mOpts{cfgFiles: cfgFiles})
	r.Bounds = map[string]any{"max_keywords": maxK, "definitions": nDefs, "calls": nCalls, "values": "absent|Integer|String per key, optional unknown key, 0-1 positional",
		"K>=4": "2 parameter kinds, every third value vector", "K=5": "every fourth kind vector"}
	r.Sample(map[string]any{"program": "def m(p0, k0:, k1: 2)\n  dbtp k0\n  dbtp k1\n  k0\nend\nr = m(1, k1: \"s\", k0: 1)\ndbtp r\n", "compared_with": "m(1, k0: 1, k1: \"s\")"})
	r.Sample(map[string]any{"config_class": "KW.m(k0: Int, k1: DefaultString)", "call": "KW.m(k1: \"s\", zz: 1, k0: 1)"})
}
