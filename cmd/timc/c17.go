package main

import (
	"fmt"
	"os"
	"sort"
	"strings"

	"verif/internal/engine"
	"verif/internal/gen"
	"verif/internal/ref"
)

func init() { register("C17", c17) }

type c17recv struct {
	v, lit, class string
	elems         []string // element / value classes
}

func c17resolve(t string, rv c17recv) (string, bool) {
	union := func(es []string) string {
		if len(es) == 1 {
			return es[0]
		}
		return canonType("Union<" + strings.Join(es, " ") + ">")
	}
	switch t {
	case "Int", "Integer":
		return "Integer", true
	case "String", "Symbol", "NilClass", "Float":
		return t, true
	case "Untyped":
		return "untyped", true
	case "Unify", "Flatten", "Item":
		switch rv.class {
		case "Array", "Hash":
			if t == "Item" && rv.class == "Hash" {
				return "", false
			}
			return union(rv.elems), true
		case "Range":
			return "Integer", true
		}
	}
	return "", false
}

func c17(x *ctx) {
	r := x.run
	thorough := x.tier == "thorough"
	r.Rule = "receivers {Array<Integer>, Array<Integer String>, Hash, Range, String, Integer} x every configured method with block_parameters (own class and inherited) x 0..declared+1 block variables x {do/end, braces} " +
		"x {a parameter shadows an outer Float variable, not} x {nothing, a nested inner block that reads the outer parameter, inner block that shadows it}; a block-local first assignment; " +
		"probes: every parameter inside the block, the outer variable and the block-local after it. Reference: declared type resolved against the receiver (Unify/Flatten/Item -> element or value union, Int/String/Symbol/Untyped literally), " +
		"surplus parameters NilClass, outer variable keeps its type, block-local prints Unknown afterwards. non-trivial = all"
	core := gen.CoreConfig(engine.RepoRoot)
	cfg := ref.Load(core)
	recvs := []c17recv{
		{"ar", "[1, 2]", "Array", []string{"Integer"}}, {"am", "[1, \"s\"]", "Array", []string{"Integer", "String"}}, {"hs", "{k: 1, j: \"s\"}", "Hash", []string{"Integer", "String"}},
		{"hi", "{k: 1}", "Hash", []string{"Integer"}}, {"rg", "(1..3)", "Range", nil}, {"st", "\"str\"", "String", nil}, {"it", "3", "Integer", nil},
	}
	argFor := map[string]string{"downto": "(1)", "merge": "({z: 2})", "merge!": "({z: 2})", "count": "", "max": "", "min": ""}
	type probe struct {
		row  int
		want string
		what string
	}
	type prog struct {
		src    string
		probes []probe
		feat   string
	}
	var progs []prog
	pnames := []string{"e", "f", "g", "h"}
	for _, rv := range recvs {
		// block methods visible on the class
		names := map[string]bool{}
		for cn, cl := range cfg.Classes {
			_ = cn
			for n, ms := range cl.Inst {
				for _, m := range ms {
					if len(m.BlockParams) > 0 {
						names[n] = true
					}
				}
			}
		}
		var ns []string
		for n := range names {
			ns = append(ns, n)
		}
		sort.Strings(ns)
		for _, name := range ns {
			ms := cfg.Lookup(rv.class, name)
			if ms == nil || len(ms) != 1 || len(ms[0].BlockParams) == 0 || !plainNameRe.MatchString(name) {
				continue
			}
			if name == "loop" || name == "proc" || name == "lambda" {
				continue
			}
			m := ms[0]
			// required non-block arguments we do not know how to supply -> skip
			args, known := argFor[name]
			if !known {
				needs := false
				for _, a := range m.Args {
					if !a.Default && !a.Asterisk {
						needs = true
					}
				}
				if needs {
					continue
				}
			}
			var want []string
			okAll := true
			for _, bp := range m.BlockParams {
				w, ok := c17resolve(bp, rv)
				if !ok {
					okAll = false
				}
				want = append(want, w)
			}
			_ = okAll
			for nv := 0; nv <= len(m.BlockParams)+1 && nv <= 4; nv++ {
				for _, form := range []string{"do", "brace"} {
					for _, shadow := range []bool{false, true} {
						if shadow && nv == 0 {
							continue
						}
						for _, nest := range []string{"none", "inner-reads", "inner-shadows", "forward-ref"} {
							if nest != "none" && nest != "forward-ref" && (nv == 0 || (!thorough && form == "brace")) {
								continue
							}
							if nest == "forward-ref" && !thorough && shadow {
								continue
							}
							var sb strings.Builder
							row := 0
							var probes []probe
							line := func(s string) { sb.WriteString(s + "\n"); row++ }
							pr := func(expr, want, what string, ok bool) {
								line("dbtp " + expr)
								if ok {
									probes = append(probes, probe{row, want, what})
								}
							}
							line(rv.v + " = " + rv.lit)
							vars := append([]string{}, pnames[:nv]...)
							outer := "zo"
							if shadow {
								outer = vars[0]
							}
							line(outer + " = 1.5")
							open, close := " do", "end"
							if form == "brace" {
								open, close = " {", "}"
							}
							head := rv.v + "." + name + args + open
							if nv > 0 {
								head += " |" + strings.Join(vars, ", ") + "|"
							}
							line(head)
							for i, v := range vars {
								if i < len(want) {
									pr(v, want[i], "param", want[i] != "")
								} else {
									pr(v, "NilClass", "surplus-param", true)
								}
							}
							line("loc = :sym")
							pr("loc", "Symbol", "block-local-inside", true)
							switch nest {
							case "inner-reads":
								line("[2.5].each do |zi|")
								pr("zi", "Float", "inner-param", true)
								if len(want) > 0 && want[0] != "" {
									pr(vars[0], want[0], "outer-param-inside-inner", true)
								}
								line("end")
								if len(want) > 0 && want[0] != "" {
									pr(vars[0], want[0], "outer-param-after-inner", true)
								}
								pr("zi", "Unknown", "inner-param-after-inner", true)
							case "inner-shadows":
								line("[2.5].each do |" + vars[0] + "|")
								pr(vars[0], "Float", "inner-shadowing-param", true)
								line("end")
								if len(want) > 0 && want[0] != "" {
									pr(vars[0], want[0], "outer-param-after-shadowing-inner", true)
								}
							case "forward-ref":
								// resolves only in a later analysis round: the class is defined below the block
								line("zfw = Pointq.new(loc)")
								pr("loc", "Symbol", "block-local-after-forward-ref", true)
							}
							line(close)
							pr(outer, "Float", "outer-var-after", true)
							pr("loc", "Unknown", "block-local-after", true)
							if nest == "forward-ref" {
								pr("zfw", "Unknown", "second-block-local-after", true)
								line("class Pointq")
								line("  def initialize(a)")
								line("    @a = a")
								line("  end")
								line("end")
							}
							progs = append(progs, prog{sb.String(), probes,
								fmt.Sprintf("%s#%s:nv=%d:%s:shadow=%v:%s", rv.class, name, nv, form, shadow, nest)})
						}
					}
				}
			}
		}
	}
	// a top-level method named like the first block parameter: inside the block the bare name is the parameter
	// (also when the parameter's declared type is Untyped), and after the block it is the method again
	{
		n := len(progs)
		for i := 0; i < n; i++ {
			p := progs[i]
			if !strings.Contains(p.feat, ":do:shadow=false:none") || strings.Contains(p.feat, "nv=0") {
				continue
			}
			if !thorough && len(p.probes) > 0 && p.probes[0].want != "untyped" {
				continue // quick: only parameters whose declared type is Untyped
			}
			var probes []probe
			for _, pb := range p.probes {
				probes = append(probes, probe{pb.row + 3, pb.want, pb.what})
			}
			progs = append(progs, prog{"def e\n  :zq\nend\n" + p.src, probes, p.feat + ":method-named-like-param"})
		}
	}
	// overloaded block methods (a generated class Bkc): the first declaration takes no block, only the second
	// declares block_parameters (the shape of Dir.glob / Dir.chdir in the shipped configuration); 0-1 positional
	// arguments; the call is written with and without parentheses, with do/end and braces
	nCore := len(progs)
	bk := gen.CfgClass{Frame: "Builtin", Class: "Bkc"}
	type bkMeth struct {
		name   string
		args   []gen.CfgArg
		bp     []string
		want   []string
		argLit string
	}
	bkms := []bkMeth{
		{"scan", []gen.CfgArg{{Type: []string{"String"}}}, []string{"String"}, []string{"String"}, "\"x\""},
		{"walk", []gen.CfgArg{{Type: []string{"DefaultString"}}}, []string{"Int", "String"}, []string{"Integer", "String"}, "\"x\""},
		{"tick", []gen.CfgArg{}, []string{"Float"}, []string{"Float"}, ""},
		{"pick", []gen.CfgArg{{Type: []string{"Int"}}, {Type: []string{"DefaultInt"}}}, []string{"Symbol"}, []string{"Symbol"}, "1"},
	}
	for _, m := range bkms {
		bk.ClassMethods = append(bk.ClassMethods,
			gen.CfgMethod{Name: m.name, Arguments: m.args, ReturnType: gen.CfgRet{Type: []string{"Int"}}},
			gen.CfgMethod{Name: m.name, Arguments: m.args, ReturnType: gen.CfgRet{Type: []string{"NilClass"}}, BlockParameters: m.bp})
	}
	bkFiles := gen.Merge(core, map[string]string{"bkc.json": bk.JSON()})
	x.pool.NewCfgDir("c17-bk", bkFiles)
	for _, m := range bkms {
		forms := map[string][]string{"scan": {"args"}, "walk": {"none", "empty", "args"}, "tick": {"none", "empty"}, "pick": {"args"}}[m.name]
		for _, parens := range forms {
			callArgs := map[string]string{"none": "", "empty": "()", "args": "(" + m.argLit + ")"}[parens]
			for nv := 1; nv <= len(m.bp)+1; nv++ {
				for _, form := range []string{"do", "brace"} {
					for _, shadow := range []bool{false, true} {
						var sb strings.Builder
						row := 0
						var probes []probe
						line := func(s string) { sb.WriteString(s + "\n"); row++ }
						vars := append([]string{}, pnames[:nv]...)
						outer := "zo"
						if shadow {
							outer = vars[0]
						}
						line(outer + " = 1.5")
						open, close := " do", "end"
						if form == "brace" {
							open, close = " {", "}"
						}
						line("Bkc." + m.name + callArgs + open + " |" + strings.Join(vars, ", ") + "|")
						for i, v := range vars {
							line("dbtp " + v)
							if i < len(m.want) {
								probes = append(probes, probe{row, m.want[i], "param"})
							} else {
								probes = append(probes, probe{row, "NilClass", "surplus-param"})
							}
						}
						line(close)
						line("dbtp " + outer)
						probes = append(probes, probe{row, "Float", "outer-var-after"})
						progs = append(progs, prog{sb.String(), probes, fmt.Sprintf("Bkc.%s[overloaded]:parens=%s:nv=%d:%s:shadow=%v:none", m.name, parens, nv, form, shadow)})
					}
				}
			}
		}
	}
	cases := make([]*engine.Case, len(progs))
	for i, p := range progs {
		cfgName := "core"
		if i >= nCore {
			cfgName = "c17-bk"
		}
		cases[i] = &engine.Case{Cfg: cfgName, Files: map[string]string{"t.rb": p.src}, Argv: []string{"t.rb"}}
	}
	res := x.pool.RunAll(cases)
	type viol struct {
		idx  int
		desc string
	}
	bySig := map[string][]viol{}
	var recs []execRec
	nProbes := 0
	for i, rr := range res {
		r.Evaluations++
		r.Transitions++
		r.Nontrivial++
		if rr.Abnormal() {
			s := "abnormal:" + outOf(rr)
			bySig[s] = append(bySig[s], viol{i, outOf(rr)})
			continue
		}
		r.Outcome(rr.Stdout)
		if i%61 == 0 {
			recs = append(recs, execRec{cases[i].Cfg, cases[i].Files, cases[i].Argv, rr.Stdout})
		}
		got := map[int]string{}
		for _, l := range strings.Split(strings.TrimSuffix(rr.Stdout, "\n"), "\n") {
			p := strings.SplitN(l, ":::", 3)
			if len(p) == 3 {
				var row int
				fmt.Sscanf(p[1], "%d", &row)
				got[row] = p[2]
			}
		}
		for _, pb := range progs[i].probes {
			nProbes++
			g := canonType(got[pb.row])
			if pb.want == "Unknown" && (g == "untyped" || g == "Unknown") {
				continue // "not visible": ti prints Unknown at top level and untyped inside an enclosing block
			}
			if g != pb.want {
				f := strings.SplitN(progs[i].feat, ":", 2)
				sig := fmt.Sprintf("block:%s:%s:got=%s:want=%s", f[0], pb.what, g, pb.want)
				bySig[sig] = append(bySig[sig], viol{i, fmt.Sprintf("row %d (%s; %s): ti prints %q, reference %q", pb.row, pb.what, progs[i].feat, g, pb.want)})
			}
		}
	}
	r.States = r.Evaluations
	r.Extra["probes"] = nProbes
	r.Extra["mismatching_signatures"] = len(bySig)
	if dbg := os.Getenv("VERIF_DEBUG_SIGS"); dbg != "" {
		var sb strings.Builder
		for s, vs := range bySig {
			fmt.Fprintf(&sb, "%d\t%s\t%s\n", len(vs), s, vs[0].desc)
		}
		os.WriteFile(dbg, []byte(sb.String()), 0o644)
	}
	var sigs []string
	for s := range bySig {
		sigs = append(sigs, s)
	}
	sort.Strings(sigs)
	budget := 60
	for _, s := range sigs {
		vs := bySig[s]
		v := vs[0]
		if r.Known(s) == nil {
			if budget <= 0 {
				r.Unconfirmed = append(r.Unconfirmed, s+" (confirmation budget exhausted)")
				continue
			}
			budget--
			rr := x.realStable(cases[v.idx].Cfg, cases[v.idx].Files, cases[v.idx].Argv)
			if rr.Stdout != res[v.idx].Stdout {
				r.Unconfirmed = append(r.Unconfirmed, s+" (real binary prints something else)")
				continue
			}
			r.Validated++
		}
		for i := range vs {
			if i == 0 {
				r.Report(s, fmt.Sprintf("%s (%d programs): %s", s, len(vs), v.desc),
					ReplayDoc{Cfg: "inline", CfgFiles: map[string]map[string]string{"core": nil, "c17-bk": {"bkc.json": bk.JSON()}}[cases[v.idx].Cfg], Files: cases[v.idx].Files, Argv: cases[v.idx].Argv,
						Observed: head(res[v.idx].Stdout, 1200), Expected: v.desc, Note: "configuration: the listed files (if any) plus the 21 core configuration files of /repo/test/.ti-config"})
			} else {
				r.Report(s, "", nil)
			}
		}
	}
	x.validateAgainstReal(recs, 30)
	r.Bounds = map[string]any{"receivers": len(recvs), "programs": len(progs), "max_block_vars": "declared+1", "nesting": "one inner block (reading / shadowing the outer parameter)"}
	if len(progs) > 0 {
		r.Sample(map[string]any{"program": progs[len(progs)/2].src, "features": progs[len(progs)/2].feat})
		r.Sample(map[string]any{"program": progs[len(progs)-1].src, "features": progs[len(progs)-1].feat})
	}
}
