package main

import (
	"bytes"
	"fmt"
	"os"
	"os/exec"
	"path/filepath"
	"sort"
	"strings"
	"sync"

	"verif/internal/engine"
	"verif/internal/gen"
)

func init() { register("C26", c26) }

type c26def struct {
	family  string
	csrc    string
	min     int
	max     int // -1 = unbounded
	argLits []string // literal for position i (types the binding expects)
	feat    string
}

func c26(x *ctx) {
	r := x.run
	thorough := x.tier == "thorough"
	r.Rule = "C sources defining one class method each: (A) every MRB_ARGS combination over REQ(0-2), OPT(0-2), REST, POST(0-1), BLOCK, plus NONE and ANY, through mrb_define_class_method and mrb_define_class_method_id; " +
		"(B) every well-formed mrb_get_args format over required {i,S,o}^<=1 (thorough <=2), `!` modifier, `|` optional {i,S,o}^<=1 (thorough <=2), `*`, `&`; (C) mrbc_define_class_method bodies reading GET_*_ARG(1..3) with the later ones under `if (argc >= n)`; " +
		"ti-c2json converts each (under SORTED/REVERSED map order and twice unmodified: byte-identical), ti loads the result and a call with k = 0..6 positional arguments must be reported exactly when k is outside the C definition's arity. non-trivial = all"
	r.Assumptions = []string{"no C compiler is involved: the reference arity is the generator's reading of the MRB_ARGS spec / format string / argc pattern"}
	var defs []c26def
	wrap := func(definer, body string) string {
		return "#include <mruby.h>\n\nstatic mrb_value\nfn_target(mrb_state *mrb, mrb_value self)\n{\n" + body + "  return mrb_nil_value();\n}\n\nvoid\nmrb_cx_gem_init(mrb_state *mrb)\n{\n  struct RClass *cls = mrb_define_class(mrb, \"Cx\", mrb->object_class);\n  " + definer + "\n}\n"
	}
	// (A)
	for _, definer := range []string{"plain", "id"} {
		for req := 0; req <= 2; req++ {
			for opt := 0; opt <= 2; opt++ {
				for _, rest := range []bool{false, true} {
					for post := 0; post <= 1; post++ {
						for _, blk := range []bool{false, true} {
							if !thorough && definer == "id" && (opt == 2 || req == 2) {
								continue
							}
							var parts []string
							if req > 0 {
								parts = append(parts, fmt.Sprintf("MRB_ARGS_REQ(%d)", req))
							}
							if opt > 0 {
								parts = append(parts, fmt.Sprintf("MRB_ARGS_OPT(%d)", opt))
							}
							if rest {
								parts = append(parts, "MRB_ARGS_REST()")
							}
							if post > 0 {
								parts = append(parts, fmt.Sprintf("MRB_ARGS_POST(%d)", post))
							}
							if blk {
								parts = append(parts, "MRB_ARGS_BLOCK()")
							}
							if len(parts) == 0 {
								parts = []string{"MRB_ARGS_NONE()"}
							}
							spec := strings.Join(parts, "|")
							def := "mrb_define_class_method(mrb, cls, \"target\", fn_target, " + spec + ");"
							if definer == "id" {
								def = "mrb_define_class_method_id(mrb, cls, MRB_SYM(target), fn_target, " + spec + ");"
							}
							mx := req + opt + post
							if rest {
								mx = -1
							}
							defs = append(defs, c26def{"mrb-args-" + definer, wrap(def, ""), req + post, mx, nil,
								fmt.Sprintf("macros=%d:opt=%v:rest=%v:post=%v:block=%v", len(parts), opt > 0, rest, post > 0, blk)})
						}
					}
				}
			}
		}
		def := "mrb_define_class_method(mrb, cls, \"target\", fn_target, MRB_ARGS_ANY());"
		if definer == "id" {
			def = "mrb_define_class_method_id(mrb, cls, MRB_SYM(target), fn_target, MRB_ARGS_ANY());"
		}
		defs = append(defs, c26def{"mrb-args-" + definer, wrap(def, ""), 0, -1, nil, "any"})
	}
	// (A2) one C function bound twice with different MRB_ARGS specs (the function reads its arguments through
	// argc/argv, no format string): `target` must get its own spec whether it is bound first or second,
	// through the plain or the _id definer
	{
		type sp struct {
			spec     string
			min, max int
		}
		sps := []sp{{"MRB_ARGS_NONE()", 0, 0}, {"MRB_ARGS_REQ(1)", 1, 1}, {"MRB_ARGS_OPT(1)", 0, 1}, {"MRB_ARGS_REST()", 0, -1}, {"MRB_ARGS_REQ(2)|MRB_ARGS_OPT(1)", 2, 3}}
		mk := func(definer, name, spec string) string {
			if definer == "id" {
				return "mrb_define_class_method_id(mrb, cls, MRB_SYM(" + name + "), fn_target, " + spec + ");"
			}
			return "mrb_define_class_method(mrb, cls, \"" + name + "\", fn_target, " + spec + ");"
		}
		body := "  mrb_int argc = mrb_get_argc(mrb);\n  const mrb_value *argv = mrb_get_argv(mrb);\n  (void)argc; (void)argv;\n"
		for ti, t := range sps {
			for oi, o := range sps {
				if ti == oi {
					continue
				}
				for _, order := range []string{"target-first", "target-second"} {
					for _, definers := range [][2]string{{"plain", "plain"}, {"id", "plain"}, {"plain", "id"}} {
						if !thorough && definers[0] != "plain" && (ti+oi)%2 == 0 {
							continue
						}
						dt, do := mk(definers[0], "target", t.spec), mk(definers[1], "other", o.spec)
						definer := dt + "\n  " + do
						if order == "target-second" {
							definer = do + "\n  " + dt
						}
						defs = append(defs, c26def{"shared-function", wrap(definer, body), t.min, t.max, nil,
							fmt.Sprintf("%s:definers=%s+%s:target=%s:other=%s", order, definers[0], definers[1], t.spec, o.spec)})
					}
				}
			}
		}
	}
	// (B)
	tys := []string{"i", "S", "o"}
	lit := map[string]string{"i": "1", "S": "\"s\"", "o": "1"}
	maxN := 1
	if thorough {
		maxN = 2
	}
	var seqs [][]string
	var rec func(cur []string)
	rec = func(cur []string) {
		seqs = append(seqs, append([]string{}, cur...))
		if len(cur) == maxN {
			return
		}
		for _, t := range tys {
			rec(append(cur, t))
		}
	}
	rec(nil)
	for _, rq := range seqs {
		for _, op := range seqs {
			for _, star := range []bool{false, true} {
				for _, amp := range []bool{false, true} {
					for _, bang := range []bool{false, true} {
						if bang && (len(rq) == 0 || rq[len(rq)-1] != "S") {
							continue
						}
						f := strings.Join(rq, "")
						if bang {
							f += "!"
						}
						if len(op) > 0 || star {
							f += "|" + strings.Join(op, "")
						}
						if star {
							f += "*"
						}
						if amp {
							f += "&"
						}
						if f == "" {
							continue
						}
						var lits []string
						for _, t := range rq {
							lits = append(lits, lit[t])
						}
						for _, t := range op {
							lits = append(lits, lit[t])
						}
						mx := len(rq) + len(op)
						var specParts []string
						if len(rq) > 0 {
							specParts = append(specParts, fmt.Sprintf("MRB_ARGS_REQ(%d)", len(rq)))
						}
						if len(op) > 0 {
							specParts = append(specParts, fmt.Sprintf("MRB_ARGS_OPT(%d)", len(op)))
						}
						if star {
							specParts = append(specParts, "MRB_ARGS_REST()")
							mx = -1
						}
						if amp {
							specParts = append(specParts, "MRB_ARGS_BLOCK()")
						}
						if len(specParts) == 0 {
							specParts = []string{"MRB_ARGS_NONE()"}
						}
						body := "  mrb_value a, b, c, d, blk;\n  mrb_get_args(mrb, \"" + f + "\", &a, &b, &c, &d, &blk);\n"
						def := "mrb_define_class_method(mrb, cls, \"target\", fn_target, " + strings.Join(specParts, "|") + ");"
						defs = append(defs, c26def{"get-args", wrap(def, body), len(rq), mx, lits,
							fmt.Sprintf("req=%d:opt=%d:star=%v:amp=%v:bang=%v", len(rq), len(op), star, amp, bang)})
					}
				}
			}
		}
	}
	// (C)
	getters := []string{"GET_INT_ARG", "GET_STRING_ARG", "GET_FLOAT_ARG"}
	glit := []string{"1", "\"s\"", "1.5"}
	for n := 1; n <= 3; n++ {
		for u := 1; u <= n; u++ {
			var body strings.Builder
			var lits []string
			for i := 1; i <= n; i++ {
				g := getters[(i-1)%3]
				lits = append(lits, glit[(i-1)%3])
				if i <= u {
					fmt.Fprintf(&body, "  int v%d = %s(%d);\n", i, g, i)
				} else {
					fmt.Fprintf(&body, "  if (argc >= %d) {\n    int v%d = %s(%d);\n  }\n", i, i, g, i)
				}
			}
			src := "#include \"mrubyc.h\"\n\nvoid fn_target(mrb_vm *vm, mrb_value v[], int argc)\n{\n" + body.String() + "  SET_NIL_RETURN();\n}\n\nvoid mrbc_cx_init(mrb_vm *vm)\n{\n  mrbc_class *cls = mrbc_define_class(vm, \"Cx\", mrbc_class_object);\n  mrbc_define_class_method(vm, cls, \"target\", fn_target);\n}\n"
			defs = append(defs, c26def{"argc-pattern", src, u, n, lits, fmt.Sprintf("n=%d:unconditional=%d", n, u)})
		}
	}
	// (C') sparse typed getters: some positions are read through the untyped GET_ARG(i); the highest position is typed
	for n := 2; n <= 4; n++ {
		for mask := 0; mask < 1<<(n-1); mask++ {
			if mask == (1<<(n-1))-1 {
				continue // dense: covered above
			}
			var body strings.Builder
			var lits []string
			for i := 1; i <= n; i++ {
				typed := i == n || mask&(1<<(i-1)) != 0
				if typed {
					fmt.Fprintf(&body, "  int v%d = %s(%d);\n", i, getters[(i-1)%3], i)
					lits = append(lits, glit[(i-1)%3])
				} else {
					fmt.Fprintf(&body, "  mrbc_value v%d = GET_ARG(%d);\n", i, i)
					lits = append(lits, "1")
				}
			}
			src := "#include \"mrubyc.h\"\n\nvoid fn_target(mrb_vm *vm, mrb_value v[], int argc)\n{\n" + body.String() + "  SET_NIL_RETURN();\n}\n\nvoid mrbc_cx_init(mrb_vm *vm)\n{\n  mrbc_class *cls = mrbc_define_class(vm, \"Cx\", mrbc_class_object);\n  mrbc_define_class_method(vm, cls, \"target\", fn_target);\n}\n"
			defs = append(defs, c26def{"argc-pattern", src, n, n, lits, fmt.Sprintf("n=%d:sparse-typed-mask=%d", n, mask)})
		}
	}
	work := filepath.Join(x.pool.Scratch, "c2j")
	os.MkdirAll(work, 0o755)
	runConv := func(bin, order, file string) (string, error) {
		cmd := exec.Command(bin, "-class", "Cx", file)
		cmd.Dir = work
		cmd.Env = append(os.Environ(), "VERIF_ORDER="+order)
		var so, se bytes.Buffer
		cmd.Stdout, cmd.Stderr = &so, &se
		if err := cmd.Run(); err != nil {
			return so.String(), fmt.Errorf("%v: %s", err, head(se.String(), 300))
		}
		return so.String(), nil
	}
	type convRes struct {
		json    string
		err     string
		differs []string
	}
	results := make([]convRes, len(defs))
	var wg sync.WaitGroup
	sem := make(chan struct{}, 16)
	for i, d := range defs {
		wg.Add(1)
		sem <- struct{}{}
		go func(i int, d c26def) {
			defer wg.Done()
			defer func() { <-sem }()
			f := filepath.Join(work, fmt.Sprintf("src%d.c", i))
			os.WriteFile(f, []byte(d.csrc), 0o644)
			ref, err := runConv(x.bins.C2jOv, "sorted", f)
			res := convRes{json: ref}
			if err != nil {
				res.err = err.Error()
			} else {
				if o, _ := runConv(x.bins.C2jOv, "reversed", f); o != ref {
					res.differs = append(res.differs, "reversed")
				}
				for k := 0; k < 2; k++ {
					if o, _ := runConv(x.bins.C2j, "", f); o != ref {
						res.differs = append(res.differs, fmt.Sprintf("unmodified-run-%d", k))
					}
				}
			}
			results[i] = res
		}(i, d)
	}
	wg.Wait()
	type viol struct {
		desc   string
		replay ReplayDoc
	}
	bySig := map[string][]viol{}
	core := gen.CoreConfig(engine.RepoRoot)
	var cases []*engine.Case
	type cref struct{ di, k int }
	var refs []cref
	for i, res := range results {
		d := defs[i]
		r.Evaluations += 4
		r.Transitions += 3
		r.Nontrivial++
		r.Outcome(res.json)
		rd := ReplayDoc{Cfg: "none", Files: map[string]string{"src.c": d.csrc}, Argv: []string{"(ti-c2json -class Cx src.c)"}, Observed: head(res.json, 1200)}
		if res.err != "" {
			bySig["c26:converter-failed"] = append(bySig["c26:converter-failed"], viol{d.feat + ": " + res.err, rd})
			continue
		}
		if len(res.differs) > 0 {
			s := "c26:nondeterministic:" + d.family
			bySig[s] = append(bySig[s], viol{fmt.Sprintf("%s %s: output differs under %v", d.family, d.feat, res.differs), rd})
		}
		cname := fmt.Sprintf("c2j-%d", i)
		x.pool.NewCfgDir(cname, gen.Merge(core, map[string]string{"cx.json": res.json}))
		for k := 0; k <= 6; k++ {
			var args []string
			for j := 0; j < k; j++ {
				if j < len(d.argLits) {
					args = append(args, d.argLits[j])
				} else {
					args = append(args, "1")
				}
			}
			cases = append(cases, &engine.Case{Cfg: cname, Files: map[string]string{"t.rb": "Cx.target(" + strings.Join(args, ", ") + ")\n"}, Argv: []string{"t.rb"}})
			refs = append(refs, cref{i, k})
		}
	}
	res := x.pool.RunAll(cases)
	var recs []execRec
	for i, rr := range res {
		r.Evaluations++
		r.Transitions++
		d := defs[refs[i].di]
		k := refs[i].k
		rd := ReplayDoc{Cfg: "inline", CfgFiles: map[string]string{"cx.json": results[refs[i].di].json}, Files: cases[i].Files, Argv: cases[i].Argv, Observed: outOf(rr),
			Note: "C source:\n" + d.csrc + "\n(plus the 21 core configuration files)"}
		if rr.Abnormal() {
			s := "abnormal:" + outOf(rr)
			bySig[s] = append(bySig[s], viol{outOf(rr), rd})
			continue
		}
		if i%41 == 0 {
			recs = append(recs, execRec{cases[i].Cfg, cases[i].Files, cases[i].Argv, rr.Stdout})
		}
		expDiag := k < d.min || (d.max >= 0 && k > d.max)
		hasDiag := strings.TrimSpace(rr.Stdout) != ""
		if hasDiag != expDiag {
			what := "accepted-outside-arity"
			if hasDiag {
				what = "rejected-inside-arity"
			}
			rel := "k>max"
			if k < d.min {
				rel = "k<min"
			} else if hasDiag {
				rel = "min<=k<=max"
			}
			s := fmt.Sprintf("c26:%s:%s:%s:%s", d.family, what, rel, d.feat)
			bySig[s] = append(bySig[s], viol{fmt.Sprintf("%s (%s, accepts %d..%d) called with %d argument(s): ti prints %q; emitted config %s", d.family, d.feat, d.min, d.max, k, strings.TrimSpace(rr.Stdout), head(strings.ReplaceAll(results[refs[i].di].json, "\n", " "), 400)), rd})
		}
	}
	r.States = r.Evaluations
	r.Extra["definitions"] = len(defs)
	r.Extra["ti_arity_calls"] = len(cases)
	r.Extra["mismatching_signatures"] = len(bySig)
	if dbg := os.Getenv("VERIF_DEBUG_SIGS"); dbg != "" {
		var sb strings.Builder
		for s, vs := range bySig {
			fmt.Fprintf(&sb, "%d\t%s\t%s\n", len(vs), s, vs[0].desc)
		}
		os.WriteFile(dbg, []byte(sb.String()), 0o644)
	}
	var sigs []string
	for s := range bySig {
		sigs = append(sigs, s)
	}
	sort.Strings(sigs)
	for _, s := range sigs {
		vs := bySig[s]
		r.Validated++
		for i, v := range vs {
			if i == 0 {
				r.Report(s, fmt.Sprintf("%s (%d cases): %s", s, len(vs), v.desc), v.replay)
			} else {
				r.Report(s, "", nil)
			}
		}
	}
	x.validateAgainstReal(recs, 20)
	r.Bounds = map[string]any{"definitions": len(defs), "families": []string{"mrb-args (plain and _id definers)", "get-args formats", "argc patterns"}, "positional_counts": "0..6"}
	r.Sample(map[string]any{"c_source": defs[len(defs)/2].csrc, "accepts": []int{defs[len(defs)/2].min, defs[len(defs)/2].max}})
}
