package main

import (
	"fmt"
	"strings"

	"verif/internal/engine"
	"verif/internal/gen"
)

func init() { register("C21", c21) }

// notation pair: the same argument / return spec written in two notations
type notPair struct {
	name string
	kind string // arg | ret
	a, b any    // gen.CfgArg (arg) or gen.CfgRet (ret)
}

func c21pairs() []notPair {
	arg := func(t any) gen.CfgArg { return gen.CfgArg{Type: t} }
	ret := func(t any) gen.CfgRet { return gen.CfgRet{Type: t} }
	var ps []notPair
	// "A|B" == ["A","B"]
	for _, u := range [][]string{{"String", "Int"}, {"Int", "Float"}, {"String", "NilClass"}, {"Int", "String", "Symbol"}} {
		ps = append(ps, notPair{"union-arg:" + strings.Join(u, "|"), "arg", arg(strings.Join(u, "|")), arg(u)})
		ps = append(ps, notPair{"union-ret:" + strings.Join(u, "|"), "ret", ret(strings.Join(u, "|")), ret(u)})
	}
	for _, t := range []string{"String", "Int", "Float", "Symbol"} {
		// "?T" as return == [T, NilClass]
		ps = append(ps, notPair{"optional-ret:?" + t, "ret", ret("?" + t), ret([]string{t, "NilClass"})})
		// "?T" as argument == T with is_default
		ps = append(ps, notPair{"default-arg:?" + t, "arg", arg("?" + t), gen.CfgArg{Type: []string{t}, IsDefault: true}})
		// "*T" == T with is_asterisk
		ps = append(ps, notPair{"asterisk-arg:*" + t, "arg", arg("*" + t), gen.CfgArg{Type: []string{t}, IsAsterisk: true}})
	}
	// "[T]" == array of T
	for _, tt := range [][2]string{{"String", "StringArray"}, {"Int", "IntArray"}, {"Float", "FloatArray"}} {
		ps = append(ps, notPair{"array-arg:[" + tt[0] + "]", "arg", arg("[" + tt[0] + "]"), arg([]string{tt[1]})})
		ps = append(ps, notPair{"array-ret:[" + tt[0] + "]", "ret", ret("[" + tt[0] + "]"), ret([]string{tt[1]})})
	}
	// Int == Integer
	ps = append(ps, notPair{"int-arg", "arg", arg([]string{"Int"}), arg([]string{"Integer"})})
	ps = append(ps, notPair{"int-ret", "ret", ret([]string{"Int"}), ret([]string{"Integer"})})
	ps = append(ps, notPair{"int-union-arg", "arg", arg("Int|String"), arg("Integer|String")})
	// OptionalX == [X, NilClass]; DefaultX == X with is_default
	for _, tt := range [][2]string{{"String", "OptionalString"}, {"Int", "OptionalInt"}, {"Float", "OptionalFloat"}} {
		ps = append(ps, notPair{"optionalX-ret:" + tt[1], "ret", ret([]string{tt[1]}), ret([]string{tt[0], "NilClass"})})
		ps = append(ps, notPair{"optionalX-arg:" + tt[1], "arg", arg([]string{tt[1]}), arg([]string{tt[0], "NilClass"})})
	}
	for _, tt := range [][2]string{{"String", "DefaultString"}, {"Int", "DefaultInt"}, {"Float", "DefaultFloat"}} {
		ps = append(ps, notPair{"defaultX-arg:" + tt[1], "arg", arg([]string{tt[1]}), gen.CfgArg{Type: []string{tt[0]}, IsDefault: true}})
	}
	return ps
}

func c21(x *ctx) {
	r := x.run
	thorough := x.tier == "thorough"
	r.Rule = "for every notation pair listed in the property (A|B vs [A,B]; ?T return vs [T,NilClass]; ?T argument vs is_default; *T vs is_asterisk; [T] vs TArray; Int vs Integer; OptionalX/DefaultX vs expansions) " +
		"a generated class NT declares the same method once per notation, as class and as instance method, alone / after a required Int / before a trailing String; " +
		"programs call it with every argument tuple of length 0..3 over {Integer,String,Float,nil,Symbol,[Integer],[String]} and probe the result with dbtp, and --suggest renders the signature; " +
		"outputs under the two configurations must be identical. non-trivial = output non-empty"
	core := gen.CoreConfig(engine.RepoRoot)
	pairs := c21pairs()
	argVals := []string{"1", "\"s\"", "1.5", "nil", ":s", "[1]", "[\"s\"]"}
	maxArgs := 2
	if thorough {
		maxArgs = 3
	}
	var tuples [][]string
	var rec func(cur []string)
	rec = func(cur []string) {
		tuples = append(tuples, append([]string{}, cur...))
		if len(cur) == maxArgs {
			return
		}
		for _, v := range argVals {
			rec(append(cur, v))
		}
	}
	rec(nil)
	cfgFiles := map[string]map[string]string{}
	nMethods := 0
	x.metamorphic(func(emit func(*mItem)) {
		for pi, p := range pairs {
			shapes := []string{"alone", "after-int", "before-string"}
			if p.kind == "ret" {
				shapes = []string{"alone"}
			}
			for _, shape := range shapes {
				mk := func(spec any) gen.CfgMethod {
					m := gen.CfgMethod{Name: "m", ReturnType: gen.CfgRet{Type: []string{"Int"}}, Arguments: []gen.CfgArg{}}
					if p.kind == "ret" {
						m.ReturnType = spec.(gen.CfgRet)
						m.Arguments = []gen.CfgArg{{Type: []string{"Int"}}}
					} else {
						a := spec.(gen.CfgArg)
						switch shape {
						case "alone":
							m.Arguments = []gen.CfgArg{a}
						case "after-int":
							m.Arguments = []gen.CfgArg{{Type: []string{"Int"}}, a}
						case "before-string":
							m.Arguments = []gen.CfgArg{a, {Type: []string{"String"}}}
						}
					}
					return m
				}
				var names [2]string
				for side, spec := range []any{p.a, p.b} {
					m := mk(spec)
					cls := gen.CfgClass{Frame: "Builtin", Class: "NT", ClassMethods: []gen.CfgMethod{m, {Name: "new", Arguments: []gen.CfgArg{}, ReturnType: gen.CfgRet{Type: []string{"Self"}}}},
						InstanceMethods: []gen.CfgMethod{m}}
					name := fmt.Sprintf("nt-%d-%s-%d", pi, shape, side)
					files := gen.Merge(core, map[string]string{"nt.json": cls.JSON()})
					cfgFiles[name] = files
					x.pool.NewCfgDir(name, files)
					names[side] = name
				}
				nMethods++
				// programs: one per argument tuple (class call + instance call), plus a --suggest rendering
				for _, tu := range tuples {
					src := "o = NT.new\nr1 = NT.m(" + strings.Join(tu, ", ") + ")\ndbtp r1\nr2 = o.m(" + strings.Join(tu, ", ") + ")\ndbtp r2\n"
					argv := []string{"t.rb", "-i"}
					p := p
					emit(&mItem{baseKey: fmt.Sprintf("%s|%s|%v", names[0], shape, tu),
						base:    &engine.Case{Cfg: names[0], Files: map[string]string{"t.rb": src}, Argv: argv},
						variant: &engine.Case{Cfg: names[1], Files: map[string]string{"t.rb": src}, Argv: argv},
						sig:     func(b, v string) string { return fmt.Sprintf("notation:%s:%s:%s", p.name, shape, diffClass(b, v)) },
						desc:    fmt.Sprintf("notation pair %s (%s) called with (%s)", p.name, shape, strings.Join(tu, ", "))})
				}
				for _, sg := range []struct{ src, row string }{{"o = NT.new\no.\n", "2"}, {"NT.\n", "1"}, {"o = NT.new\no.m\n", "2"}} {
					argv := []string{"t.rb", "--suggest", "--row=" + sg.row}
					p := p
					emit(&mItem{baseKey: fmt.Sprintf("%s|%s|suggest|%s", names[0], shape, sg.src),
						base:    &engine.Case{Cfg: names[0], Files: map[string]string{"t.rb": sg.src}, Argv: argv},
						variant: &engine.Case{Cfg: names[1], Files: map[string]string{"t.rb": sg.src}, Argv: argv},
						sig:     func(b, v string) string { return fmt.Sprintf("notation:%s:%s:suggest-rendering", p.name, shape) },
						desc:    fmt.Sprintf("notation pair %s (%s): --suggest rendering", p.name, shape)})
				}
			}
		}
	}, &mOpts{cfgFiles: cfgFiles})
	r.Bounds = map[string]any{"notation_pairs": len(pairs), "method_shapes": nMethods, "argument_tuples": len(tuples), "max_args": maxArgs}
	r.Sample(map[string]any{"pair": "?String (argument)", "a": map[string]any{"type": "?String"}, "b": map[string]any{"type": []string{"String"}, "is_default": true}, "call": "NT.m(\"s\", 1)"})
}
