package main

import (
	"fmt"
	"os"
	"sort"
	"strings"

	"verif/internal/engine"
)

func init() { register("C10", c10) }

// ---- reference model: variant sets -------------------------------------------------------

type vset []string // sorted class names (top-level variants as ti renders them)

func mkset(vs ...string) vset {
	s := append(vset{}, vs...)
	sort.Strings(s)
	return s
}

func (s vset) has(c string) bool {
	for _, v := range s {
		if v == c || strings.HasPrefix(v, c+"<") {
			return true
		}
	}
	return false
}

func (s vset) only(c string) vset {
	var o vset
	for _, v := range s {
		if v == c || strings.HasPrefix(v, c+"<") {
			o = append(o, v)
		}
	}
	return o
}

func (s vset) without(c string) vset {
	var o vset
	for _, v := range s {
		if !(v == c || strings.HasPrefix(v, c+"<")) {
			o = append(o, v)
		}
	}
	return o
}

func (s vset) union(t vset) vset {
	m := map[string]bool{}
	for _, v := range s {
		m[v] = true
	}
	for _, v := range t {
		m[v] = true
	}
	var o vset
	for v := range m {
		o = append(o, v)
	}
	sort.Strings(o)
	return o
}

func (s vset) key() string { return strings.Join(s, "|") }

// classSet drops element types (`Array<Integer>` -> `Array`): the property speaks of variants (classes);
// ti renders a narrowed array variant as Array<untyped>, which is not held against it.
func classSet(s vset) vset {
	var o []string
	for _, v := range s {
		if i := strings.IndexByte(v, '<'); i > 0 {
			v = v[:i]
		}
		o = append(o, v)
	}
	return mkset(o...)
}

// parseTypeSet parses ti's rendering (`Integer`, `Union<Integer String>`, `Union<String Array<Integer>>`).
func parseTypeSet(t string) vset {
	t = strings.TrimSpace(t)
	if strings.HasPrefix(t, "Union<") && strings.HasSuffix(t, ">") {
		inner := t[6 : len(t)-1]
		var parts []string
		depth, start := 0, 0
		for i, c := range inner {
			switch c {
			case '<':
				depth++
			case '>':
				depth--
			case ' ':
				if depth == 0 {
					parts = append(parts, inner[start:i])
					start = i + 1
				}
			}
		}
		parts = append(parts, inner[start:])
		return mkset(parts...)
	}
	return mkset(t)
}

type atom struct {
	v   string // variable
	neg bool
	nil bool   // nil? test (else is_a?)
	cls string // class for is_a?
}

func (a atom) src() string {
	s := a.v + ".nil?"
	if !a.nil {
		s = a.v + ".is_a?(" + a.cls + ")"
	}
	if a.neg {
		s = "!" + s
	}
	return s
}

// truth / falsity filters of one atom on the variable's current set
func (a atom) tf(cur vset) (t, f vset) {
	c := a.cls
	if a.nil {
		c = "NilClass"
	}
	t, f = cur.only(c), cur.without(c)
	if a.neg {
		t, f = f, t
	}
	return
}

type env map[string]vset

func (e env) clone() env {
	n := env{}
	for k, v := range e {
		n[k] = v
	}
	return n
}

// condTF computes the environments of the true and false branch of an && chain of atoms.
// The false environment narrows a variable only when every atom tests that same variable
// (otherwise nothing certain can be said: it keeps its full set).
func condTF(e env, atoms []atom) (te, fe env) {
	te, fe = e.clone(), e.clone()
	for _, a := range atoms {
		t, _ := a.tf(te[a.v])
		te[a.v] = t
	}
	sameVar := true
	for _, a := range atoms {
		if a.v != atoms[0].v {
			sameVar = false
		}
	}
	if sameVar {
		v := atoms[0].v
		// F = F1 ∪ (T1 ∩ F2) ∪ …
		cur := e[v]
		var acc vset
		for _, a := range atoms {
			t, f := a.tf(cur)
			acc = acc.union(f)
			cur = t
		}
		fe[v] = acc
	}
	return
}

type c10prog struct {
	src    string
	probes []struct {
		row  int
		v    string
		want vset
		tag  string
	}
	feat   string
	detail string
}

func c10(x *ctx) {
	r := x.run
	thorough := x.tier == "thorough"
	r.Rule = "all conditional skeletons: variable x (and y) of union type {Integer|NilClass, Integer|String, Integer|String|NilClass, String|Array}; condition = atom or `atom && atom` over {v.nil?, !v.nil?, v.is_a?(C), !v.is_a?(C)} on x and/or y; " +
		"head if/unless; tail none/else/elsif-else; a filler statement (nothing, assignment, builtin call, unrelated inner if, inner block) in the first branch; (thorough) a nested conditional on y inside the first branch; " +
		"dbtp probes in every branch and after the conditional; each probe's type must equal the reference variant filter (set equality; probes whose reference set is empty are skipped). non-trivial = all"
	r.Assumptions = []string{"reference model: truth set of an && chain filters each tested variable; the false set narrows only when every atom tests the same variable (F1 ∪ (T1∩F2)); after the conditional the pre-conditional type",
		"programs use the 21 core configuration files"}
	types := []struct {
		name, expr string
		set        vset
		classes    []string
	}{
		{"Int|Nil", "true ? 1 : nil", mkset("Integer", "NilClass"), []string{"Integer", "String"}},
		{"Int|Str", "true ? 1 : \"s\"", mkset("Integer", "String"), []string{"Integer", "String"}},
		{"Int|Str|Nil", "true ? 1 : (true ? \"s\" : nil)", mkset("Integer", "String", "NilClass"), []string{"Integer", "String"}},
		{"Str|Arr", "true ? \"s\" : [1]", mkset("String", "Array<Integer>"), []string{"String", "Array"}},
	}
	ySet := mkset("Float", "NilClass")
	fillers := []struct{ name, src string }{
		{"none", ""}, {"assign", "zz = 1"}, {"call", "zs = \"s\".upcase"}, {"inner-if", "if zq.nil?\n  zr = 1\nelse\n  zr = 2\nend"}, {"inner-block", "[1, 2].each { |ze| ze }"},
	}
	atomsFor := func(v string, classes []string, withNil bool) []atom {
		var as []atom
		if withNil {
			as = append(as, atom{v: v, nil: true}, atom{v: v, nil: true, neg: true})
		}
		for _, c := range classes {
			as = append(as, atom{v: v, cls: c}, atom{v: v, cls: c, neg: true})
		}
		return as
	}
	var progs []c10prog
	build := func(tname, texpr string, tset vset, head string, conds [][]atom, tail string, filler struct{ name, src string }, nested bool) {
		var sb strings.Builder
		row := 0
		line := func(s string) {
			for _, l := range strings.Split(s, "\n") {
				sb.WriteString(l + "\n")
				row++
			}
		}
		p := c10prog{}
		probe := func(e env, tag string, indent string) {
			for _, v := range []string{"x", "y"} {
				line(indent + "dbtp " + v)
				p.probes = append(p.probes, struct {
					row  int
					v    string
					want vset
					tag  string
				}{row, v, e[v], tag})
			}
		}
		e0 := env{"x": tset, "y": ySet}
		line("x = " + texpr)
		line("y = true ? 1.5 : nil")
		line("zq = true ? 1 : nil")
		te, fe := condTF(e0, conds[0])
		if head == "unless" {
			te, fe = fe, te
		}
		var cs []string
		for _, a := range conds[0] {
			cs = append(cs, a.src())
		}
		line(head + " " + strings.Join(cs, " && "))
		probe(te, "then", "  ")
		if filler.src != "" {
			line("  " + strings.ReplaceAll(filler.src, "\n", "\n  "))
		}
		if nested {
			ia := atom{v: "y", nil: true}
			it, ife := condTF(te, []atom{ia})
			line("  if " + ia.src())
			probe(it, "nested-then", "    ")
			line("  else")
			probe(ife, "nested-else", "    ")
			line("  end")
		}
		probe(te, "then-after-filler", "  ")
		switch tail {
		case "else":
			line("else")
			probe(fe, "else", "  ")
		case "elsif-else":
			var cs2 []string
			for _, a := range conds[1] {
				cs2 = append(cs2, a.src())
			}
			te2, fe2 := condTF(fe, conds[1])
			line("elsif " + strings.Join(cs2, " && "))
			probe(te2, "elsif", "  ")
			line("else")
			probe(fe2, "else-after-elsif", "  ")
		}
		line("end")
		probe(e0, "after", "")
		p.src = sb.String()
		sameVar := "one-var"
		if len(conds[0]) == 2 {
			if conds[0][0].v == conds[0][1].v {
				sameVar = "and-same-var"
			} else {
				sameVar = "and-two-vars"
			}
		}
		negs := ""
		for _, a := range conds[0] {
			if a.neg {
				negs += "!"
			} else {
				negs += "+"
			}
		}
		tailF := tail
		if tail == "elsif-else" {
			tailF = "elsif"
			for _, a := range conds[1] {
				if a.neg {
					tailF += "!"
				} else {
					tailF += "+"
				}
			}
			tailF += "-else"
		}
		// signature features: head, shape of the first condition, tail (with the elsif atom's polarity).
		// The variable type, the filler and the nesting only appear in the description.
		p.feat = fmt.Sprintf("%s:%s%s:%s", head, sameVar, negs, tailF)
		p.detail = fmt.Sprintf("type %s, filler %s, nested=%v", tname, filler.name, nested)
		progs = append(progs, p)
	}
	for _, ty := range types {
		xa := atomsFor("x", ty.classes, true)
		ya := atomsFor("y", []string{"Float"}, true)
		var condSets [][]atom
		for _, a := range xa {
			condSets = append(condSets, []atom{a})
		}
		for _, a := range xa {
			for _, b := range xa {
				if a != b {
					condSets = append(condSets, []atom{a, b})
				}
			}
			for _, b := range ya {
				condSets = append(condSets, []atom{a, b})
			}
		}
		for _, head := range []string{"if", "unless"} {
			for ci, cs := range condSets {
				for _, tail := range []string{"none", "else", "elsif-else"} {
					if head == "unless" && tail == "elsif-else" {
						continue
					}
					for fi, f := range fillers {
						if !thorough && fi > 0 && (ci+fi)%4 != 0 {
							continue // quick: every filler on a quarter of the conditions
						}
						second := [][]atom{cs, {xa[(ci+3)%len(xa)]}}
						build(ty.name, ty.expr, ty.set, head, second, tail, f, false)
						if thorough || (ci%5 == 0 && fi == 0) {
							build(ty.name, ty.expr, ty.set, head, second, tail, f, true)
						}
					}
				}
			}
		}
	}
	// wrapped: the narrowing conditional (one atom) sits in a branch of an enclosing conditional whose own tests
	// narrow nothing (`zn == 1`); x and y are probed in every inner branch, after the inner conditional, in the
	// other branches of the enclosing conditional and after it (there the pre-conditional types hold)
	for _, ty := range types {
		for ai, a := range atomsFor("x", ty.classes, true) {
			for _, ohead := range []string{"if", "unless"} {
				for _, pos := range []string{"first-of-2", "last-of-2", "first-of-3", "middle-of-3"} {
					if ohead == "unless" && strings.HasSuffix(pos, "-of-3") {
						continue
					}
					for _, ihead := range []string{"if", "unless"} {
						for _, itail := range []string{"none", "else"} {
							if !thorough && (ai+len(pos)+len(ihead)+len(itail))%2 != 0 && ihead != ohead {
								continue // quick: half of the mixed-keyword combinations
							}
							// the enclosing test: a bare flag, a comparison with > and one with == (quick: one of them, rotating)
							ocond := []string{"zf", "zn > 0", "zn == 1"}[(ai+len(pos)+len(itail)+len(ohead))%3]
							ocond2 := map[string]string{"zf": "zg", "zn > 0": "zn > 5", "zn == 1": "zn == 2"}[ocond]
							var sb strings.Builder
							row := 0
							p := c10prog{}
							line := func(s string) { sb.WriteString(s + "\n"); row++ }
							probe := func(e env, tag string, indent string) {
								for _, v := range []string{"x", "y"} {
									line(indent + "dbtp " + v)
									p.probes = append(p.probes, struct {
										row  int
										v    string
										want vset
										tag  string
									}{row, v, e[v], tag})
								}
							}
							e0 := env{"x": ty.set, "y": ySet}
							te, fe := condTF(e0, []atom{a})
							if ihead == "unless" {
								te, fe = fe, te
							}
							inner := func() {
								line("  " + ihead + " " + a.src())
								probe(te, "inner-then", "    ")
								if itail == "else" {
									line("  else")
									probe(fe, "inner-else", "    ")
								}
								line("  end")
								probe(e0, "after-inner", "  ")
							}
							line("x = " + ty.expr)
							line("y = true ? 1.5 : nil")
							line("zn = 1")
							line("zf = true")
							line("zg = false")
							line(ohead + " " + ocond)
							switch pos {
							case "first-of-2":
								inner()
								line("else")
								probe(e0, "outer-else", "  ")
							case "last-of-2":
								probe(e0, "outer-then", "  ")
								line("else")
								inner()
							case "first-of-3":
								inner()
								line("elsif " + ocond2)
								probe(e0, "outer-elsif", "  ")
								line("else")
								probe(e0, "outer-else", "  ")
							case "middle-of-3":
								probe(e0, "outer-then", "  ")
								line("elsif " + ocond2)
								inner()
								line("else")
								probe(e0, "outer-else", "  ")
							}
							line("end")
							probe(e0, "after", "")
							p.src = sb.String()
							neg := "+"
							if a.neg {
								neg = "!"
							}
							p.feat = fmt.Sprintf("wrapped:%s:%s:%s:one-var%s:%s", ohead, pos, ihead, neg, itail)
							p.detail = fmt.Sprintf("type %s, atom %s", ty.name, a.src())
							progs = append(progs, p)
						}
					}
				}
			}
		}
	}
	// run
	cases := make([]*engine.Case, len(progs))
	for i, p := range progs {
		cases[i] = &engine.Case{Cfg: "core", Files: map[string]string{"t.rb": p.src}, Argv: []string{"t.rb"}}
	}
	res := x.pool.RunAll(cases)
	type viol struct {
		pi   int
		sig  string
		desc string
	}
	bySig := map[string][]viol{}
	nProbes, nSkipped := 0, 0
	var recs []execRec
	for i, rr := range res {
		r.Evaluations++
		r.Transitions++
		r.Nontrivial++
		p := progs[i]
		if rr.Abnormal() {
			r.Outcome("abnormal")
			bySig["abnormal:"+outOf(rr)] = append(bySig["abnormal:"+outOf(rr)], viol{i, "abnormal", outOf(rr)})
			continue
		}
		r.Outcome(rr.Stdout)
		if i%97 == 0 {
			recs = append(recs, execRec{"core", cases[i].Files, cases[i].Argv, rr.Stdout})
		}
		// rows -> printed type
		got := map[int]string{}
		other := 0
		for _, l := range strings.Split(strings.TrimSuffix(rr.Stdout, "\n"), "\n") {
			parts := strings.SplitN(l, ":::", 3)
			if len(parts) != 3 {
				continue
			}
			var row int
			fmt.Sscanf(parts[1], "%d", &row)
			if _, dup := got[row]; dup {
				other++
			}
			got[row] = parts[2]
		}
		for _, pb := range p.probes {
			nProbes++
			if len(pb.want) == 0 {
				nSkipped++
				continue
			}
			g, ok := got[pb.row]
			if !ok || classSet(parseTypeSet(g)).key() != classSet(pb.want).key() {
				sig := fmt.Sprintf("narrow:%s:probe=%s:%s", p.feat, pb.tag, pb.v)
				bySig[sig] = append(bySig[sig], viol{i, sig, fmt.Sprintf("row %d `dbtp %s` (%s; %s): ti prints %q, reference %v", pb.row, pb.v, pb.tag, p.detail, g, []string(pb.want))})
			}
		}
	}
	r.States = r.Evaluations
	r.Extra["probes"] = nProbes
	r.Extra["probes_skipped_empty_reference"] = nSkipped
	r.Extra["mismatching_signatures"] = len(bySig)
	if dbg := os.Getenv("VERIF_DEBUG_SIGS"); dbg != "" {
		var sb strings.Builder
		for s, vs := range bySig {
			fmt.Fprintf(&sb, "%d\t%s\t%s\n", len(vs), s, vs[0].desc)
		}
		os.WriteFile(dbg, []byte(sb.String()), 0o644)
	}
	var sigs []string
	for s := range bySig {
		sigs = append(sigs, s)
	}
	sort.Strings(sigs)
	budget := 80
	for _, s := range sigs {
		vs := bySig[s]
		v := vs[0]
		if r.Known(s) == nil {
			if budget <= 0 {
				r.Unconfirmed = append(r.Unconfirmed, s+" (confirmation budget exhausted)")
				continue
			}
			budget--
		}
		// confirm on the unmodified binary: same output
		rr := x.realStable("core", cases[v.pi].Files, cases[v.pi].Argv)
		if rr.Stdout != res[v.pi].Stdout {
			r.Unconfirmed = append(r.Unconfirmed, s+" (real binary prints something else)")
			continue
		}
		r.Validated++
		for i := range vs {
			if i == 0 {
				r.Report(s, fmt.Sprintf("%s (%d programs): %s", s, len(vs), v.desc),
					ReplayDoc{Cfg: "inline", CfgFiles: nil, Files: cases[v.pi].Files, Argv: cases[v.pi].Argv, Observed: head(rr.Stdout, 1500), Expected: v.desc, Note: "configuration: the 21 core files of /repo/test/.ti-config"})
			} else {
				r.Report(s, "", nil)
			}
		}
	}
	x.validateAgainstReal(recs, 30)
	r.Bounds = map[string]any{"programs": len(progs), "variable_types": len(types), "fillers": len(fillers), "nesting": "second conditional on y inside the first branch (quick: a fifth of the conditions)"}
	if len(progs) > 0 {
		r.Sample(map[string]any{"program": progs[len(progs)/3].src, "features": progs[len(progs)/3].feat})
		r.Sample(map[string]any{"program": progs[len(progs)-1].src, "features": progs[len(progs)-1].feat})
	}
}
