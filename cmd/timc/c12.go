package main

import (
	"encoding/json"
	"fmt"
	"regexp"
	"sort"
	"strings"

	"verif/internal/engine"
	"verif/internal/gen"
)

func init() { register("C12", c12) }

// probeBlock builds, from the configuration JSON, one probe line per instance method of every class
// with a literal form (fresh literal receiver, no arguments and one Integer argument), plus operator probes.
func probeBlock(cfg map[string]string) []string {
	lits := map[string]string{"Integer": "1", "String": "\"s\"", "Float": "1.5", "Array": "[1, \"s\"]", "Hash": "{k: 1}", "NilClass": "nil", "Symbol": ":s", "Range": "(1..2)", "Bool": "true"}
	nameRe := regexp.MustCompile(`^[a-z_][a-z0-9_]*[?!]?$`)
	var lines []string
	lines = append(lines, "zzw = 1", "zzz = 2 * zzw", "dbtp zzz", "dbtp 1 + 1.5", "dbtp \"s\" + \"t\"", "dbtp \"s\" * 2", "dbtp [1] + [\"s\"]", "dbtp 7 / 2", "dbtp 1.5 * 2")
	for _, fn := range gen.SortedKeys(cfg) {
		var c struct {
			Frame           string `json:"frame"`
			Class           string `json:"class"`
			InstanceMethods []struct {
				Name string `json:"name"`
			} `json:"instance_methods"`
		}
		if json.Unmarshal([]byte(cfg[fn]), &c) != nil || c.Frame != "Builtin" {
			continue
		}
		lit, ok := lits[c.Class]
		if !ok {
			continue
		}
		seen := map[string]bool{}
		for _, m := range c.InstanceMethods {
			if seen[m.Name] || !nameRe.MatchString(m.Name) {
				continue
			}
			seen[m.Name] = true
			lines = append(lines, fmt.Sprintf("dbtp %s.%s", lit, m.Name), fmt.Sprintf("dbtp %s.%s(1)", lit, m.Name))
		}
	}
	return lines
}

var c12Prelude = "a = [1, 2]\ns = \"str\"\nh = {k: 1}\nu = true ? 1 : \"s\"\nun = true ? 1 : nil\nua = true ? [1] : \"s\"\nuf = true ? 1 : 1.5\n"

var c12Alphabet = []string{
	"a.first", "a.pop", "a.at(0)", "v1 = a.first", "a.push(\"s\")", "a << 1.5", "a.concat([\"x\"])", "b = a + [\"y\"]", "a.unshift(:q)", "a.slice(0)",
	"h.merge({j: \"s\"})", "h[:z] = 1.5", "h.keys", "v2 = h[:k]",
	"u.to_s", "u + 1", "u * 2", "un.to_s", "ua.size", "uf + 1", "v3 = uf * uf", "u.nil?", "un.nil?",
	"s.upcase", "s + \"t\"", "s[0]", "s * 2",
	"a.each { |e| e.to_s }", "a.map { |e| e }", "h.each { |k, v| v }",
	"v4 = 2 * 3", "v5 = 1 + 1.5", "x = Math.sqrt(2)", "r = (1..3)\nr.first",
	// locals named like configured top-level methods, and assignments through a configured reader
	"inspect = a", "proc = s", "loop = 0", "system = s", "s.upcase = 1", "a.length, zb = 1.5, 2", "puts = 1", "h.size = s",
	// calls that fail argument checking on methods whose declared return type is a union with a placeholder
	"a.last(\"x\")", "a.pop(\"x\")", "a.first(\"x\")", "a.max(\"x\")", "h.delete(1, 2)", "a.shift(\"x\")", "a.min(\"x\")", "r2 = (1..3)\nr2.first(\"x\")",
}

func c12(x *ctx) {
	r := x.run
	thorough := x.tier == "thorough"
	r.Rule = "explicit-state search over statement sequences: a fixed prelude (array, string, hash and four union variables), then every sequence of statements from a 50-statement alphabet up to the depth bound, " +
		"then a probe block generated from the configuration (every instance method of every literal class on a fresh literal receiver); plus, for String, Array and Hash, a subclass whose method writes through the bare name of every inherited zero-argument method (push, <<, index assignment; thorough: concat, merge!, assignment, unshift; in a public and in a private section); plus every corpus program that does not reopen a configured class. " +
		"State = canonical dump (in-package hook) of every TFrame entry that exists right after configuration loading; invariant: dump after analysis == dump before; " +
		"black-box oracle: the probe block prints the same types after the program as alone. non-trivial = the program prints records"
	r.Assumptions = []string{"the dump hook leaves out scratch fields that lookups legitimately rewrite (beforeEvaluateCode, ID, IsBeforeSpace, Round, isInfferedFromCall)",
		"the in-memory table is observable only through the verif dump hook; the black-box half of each violation is replayed on the unmodified binary"}
	depth := 2
	if thorough {
		depth = 3
	}
	core := gen.ShippedConfig(engine.RepoRoot)
	probes := probeBlock(core)
	probeSrc := strings.Join(probes, "\n") + "\n"
	nPrelude := strings.Count(c12Prelude, "\n")

	type item struct {
		name  string
		body  string // statements between prelude and probes
		lines int
	}
	var items []item
	var rec func(seq []string, d int)
	rec = func(seq []string, d int) {
		if len(seq) > 0 {
			body := strings.Join(seq, "\n") + "\n"
			items = append(items, item{strings.Join(seq, " ; "), body, strings.Count(body, "\n")})
		}
		if d == depth {
			return
		}
		for _, s := range c12Alphabet {
			rec(append(append([]string{}, seq...), s), d+1)
		}
	}
	rec(nil, 0)
	nSeq := len(items)
	// subclasses of configured classes (a subclass does not reopen its superclass): inside a method of the
	// subclass, the bare name of every inherited method is used as the receiver of a write (push, <<, index
	// assignment, concat, merge!, plain assignment), in a public and in a private section
	nSub := 0
	{
		nameRe := regexp.MustCompile(`^[a-z_][a-z0-9_]*$`)
		writes := []string{"%s.push(1.5)", "%s << :zq", "%s[0] = 1.5", "%s[:zk] = 1.5", "%s.concat([1.5])", "%s.merge!({zk: 1.5})", "%s = 1.5", "%s.unshift(1.5)"}
		if !thorough {
			writes = writes[:4]
		}
		for _, fn := range gen.SortedKeys(core) {
			var c struct {
				Frame           string `json:"frame"`
				Class           string `json:"class"`
				InstanceMethods []struct {
					Name      string `json:"name"`
					Arguments []struct {
						IsDefault  bool `json:"is_default"`
						IsAsterisk bool `json:"is_asterisk"`
					} `json:"arguments"`
				} `json:"instance_methods"`
			}
			if json.Unmarshal([]byte(core[fn]), &c) != nil || c.Frame != "Builtin" {
				continue
			}
			if c.Class != "String" && c.Class != "Array" && c.Class != "Hash" {
				continue
			}
			seen := map[string]bool{}
			for _, m := range c.InstanceMethods {
				required := 0
				for _, a := range m.Arguments {
					if !a.IsDefault && !a.IsAsterisk {
						required++
					}
				}
				if seen[m.Name] || !nameRe.MatchString(m.Name) || required > 0 {
					continue
				}
				seen[m.Name] = true
				for _, w := range writes {
					for _, section := range []string{"", "  private\n\n"} {
						stmt := fmt.Sprintf(w, m.Name)
						body := "class Zqsub < " + c.Class + "\n  def zqgo\n    zqrun\n  end\n\n" + section + "  def zqrun\n    " + stmt + "\n  end\nend\nZqsub.new.zqgo\n"
						vis := "public"
						if section != "" {
							vis = "private"
						}
						items = append(items, item{"subclass:" + c.Class + ":" + vis + ":" + stmt, body, strings.Count(body, "\n")})
						nSub++
					}
				}
			}
		}
	}
	// calls that pass a wrong-typed argument for a defaulted parameter of a configured class method (every frame),
	// directly and - for `new` - through a user subclass of the configured class
	nDef := 0
	{
		var litFor func(ts []string) (ok, wrong string, known bool)
		litFor = func(ts []string) (ok, wrong string, known bool) {
			if len(ts) == 0 {
				return "", "", false
			}
			if len(ts) > 1 {
				// a union parameter: its first alternative is supplied, no wrong value is derived
				o, _, k := litFor(ts[:1])
				return o, "", k
			}
			switch strings.TrimPrefix(ts[0], "Default") {
			case "Int", "Integer":
				return "1", "\"zx\"", true
			case "String":
				return "\"zs\"", "7", true
			case "Float":
				return "1.5", "\"zx\"", true
			case "Symbol":
				return ":zs", "7", true
			case "Bool":
				return "true", "7", true
			case "Untyped":
				return "1", "", true
			}
			return "", "", false
		}
		for _, fn := range gen.SortedKeys(core) {
			var c struct {
				Frame        string `json:"frame"`
				Class        string `json:"class"`
				ClassMethods []struct {
					Name      string `json:"name"`
					Arguments []struct {
						Type       any    `json:"type"`
						Key        string `json:"key"`
						IsDefault  bool   `json:"is_default"`
						IsAsterisk bool   `json:"is_asterisk"`
					} `json:"arguments"`
				} `json:"class_methods"`
			}
			if json.Unmarshal([]byte(core[fn]), &c) != nil || c.Class == "" || c.Class == "Kernel" || c.Class == "Object" {
				continue
			}
			qual := c.Class
			switch {
			case c.Frame == "Builtin" || c.Frame == "":
			case strings.HasPrefix(c.Frame, "Builtin::"):
				qual = strings.TrimPrefix(c.Frame, "Builtin::") + "::" + c.Class
			default:
				qual = c.Frame + "::" + c.Class
			}
			for _, m := range c.ClassMethods {
				if !regexp.MustCompile(`^[a-z_][a-z0-9_]*[?!]?$`).MatchString(m.Name) {
					continue
				}
				var args []string
				usable, hasWrong := true, false
				for _, a := range m.Arguments {
					ts, isList := a.Type.([]any)
					if !isList || a.Key != "" || a.IsAsterisk {
						usable = false
						break
					}
					var tss []string
					for _, t := range ts {
						tss = append(tss, fmt.Sprint(t))
					}
					okLit, wrongLit, known := litFor(tss)
					if !known {
						usable = false
						break
					}
					isDef := a.IsDefault || (len(tss) == 1 && strings.HasPrefix(tss[0], "Default"))
					if isDef && wrongLit != "" {
						args = append(args, wrongLit)
						hasWrong = true
					} else {
						args = append(args, okLit)
					}
				}
				if !usable || !hasWrong {
					continue
				}
				call := qual + "." + m.Name + "(" + strings.Join(args, ", ") + ")"
				body := call + "\n"
				items = append(items, item{"default-arg:" + call, body, 1})
				nDef++
				if m.Name == "new" {
					body := "class Zqled < " + qual + "\nend\nZqled.new(" + strings.Join(args, ", ") + ")\n"
					items = append(items, item{"default-arg-subclass:" + call, body, 3})
					nDef++
				}
			}
		}
	}
	// corpus programs that do not reopen configured classes
	configured := configuredNames(core)
	classDef := regexp.MustCompile(`(?m)^\s*(?:class|module)\s+([A-Z][A-Za-z0-9:]*)`)
	corpus := gen.Corpus(engine.RepoRoot)
	nCorpus := 0
	for i, p := range corpus {
		// quick: a third of the corpus, plus every program that uses configured classes of a frame other than Builtin
		if !thorough && i%3 != 0 && !strings.Contains(p.Src, "Record") && !strings.Contains(p.Src, "GPIO") && !strings.Contains(p.Src, "JS") {
			continue
		}
		reopens := false
		for _, m := range classDef.FindAllStringSubmatch(p.Src, -1) {
			for _, part := range strings.Split(m[1], "::") {
				if configured[part] {
					reopens = true
				}
			}
		}
		if reopens || strings.Contains(p.Src, "zzw") {
			continue
		}
		src := p.Src
		if !strings.HasSuffix(src, "\n") {
			src += "\n"
		}
		items = append(items, item{"corpus:" + p.Name, src, strings.Count(src, "\n")})
		nCorpus++
	}

	// reference: probe block alone
	file := "t.rb"
	alone := x.pool.RunAll([]*engine.Case{{Files: map[string]string{file: probeSrc}, Argv: []string{file}, Dump: "diff"}})[0]
	if alone.Abnormal() {
		panic("probe block alone is abnormal: " + outOf(alone))
	}
	initial := alone.DumpBefore
	probeAlone := restrictRebase(alone.Stdout, file, 0)

	var cases []*engine.Case
	for _, it := range items {
		pre := c12Prelude
		if strings.HasPrefix(it.name, "corpus:") {
			pre = ""
		}
		cases = append(cases, &engine.Case{Files: map[string]string{file: pre + it.body + probeSrc}, Argv: []string{file}, Dump: "diff"})
	}
	res := x.pool.RunAll(cases)
	states := map[string]int{initial: 1}
	type viol struct {
		idx  int
		kind string
	}
	var viols []viol
	for i, rr := range res {
		r.Evaluations++
		r.Transitions++
		it := items[i]
		if rr.Abnormal() {
			r.Outcome("abnormal")
			continue
		}
		r.Outcome(rr.Stdout)
		if rr.Stdout != "" {
			r.Nontrivial++
		}
		states[rr.DumpAfter]++
		pre := nPrelude
		if strings.HasPrefix(it.name, "corpus:") {
			pre = 0
		}
		got := restrictRebase(rr.Stdout, file, pre+it.lines)
		switch {
		case rr.DumpBefore != initial:
			viols = append(viols, viol{i, "initial-table-differs"})
		case rr.DumpAfter != rr.DumpBefore:
			viols = append(viols, viol{i, "table-mutated"})
		case got != probeAlone:
			viols = append(viols, viol{i, "probe-output-differs"})
		}
	}
	r.States = int64(len(states))
	r.Extra["distinct_builtin_table_states"] = len(states)
	r.Extra["sequences"] = nSeq
	r.Extra["corpus_programs"] = nCorpus
	r.Extra["probe_lines"] = len(probes)
	r.Extra["candidates_inproc"] = len(viols)

	// classify each violation by the mutated table keys (diff computed by the worker's dump hook):
	// one signature per mutated key, so that a known finding about one key never hides another key
	sort.Slice(viols, func(i, j int) bool { return len(items[viols[i].idx].body) < len(items[viols[j].idx].body) })
	bySig := map[string][]viol{}
	for _, v := range viols {
		it := items[v.idx]
		var keys []string
		for _, d := range res[v.idx].DumpDiff {
			keys = append(keys, strings.SplitN(d, " => ", 2)[0])
		}
		if len(keys) == 0 {
			keys = []string{"probe"}
		}
		for _, k := range keys {
			sig := fmt.Sprintf("%s:%s", v.kind, k)
			if k == "probe" {
				if strings.HasPrefix(it.name, "corpus:") {
					sig += "@" + strings.TrimPrefix(it.name, "corpus:")
				} else if strings.HasPrefix(it.name, "subclass:") || strings.HasPrefix(it.name, "default-arg") {
					sig += "@" + it.name
				} else {
					sig += "@stmt:" + lastStmt(it.body)
				}
			}
			bySig[sig] = append(bySig[sig], v)
		}
	}
	var sigs []string
	for s := range bySig {
		sigs = append(sigs, s)
	}
	sort.Strings(sigs)
	for _, s := range sigs {
		v := bySig[s][0]
		it := items[v.idx]
		c := cases[v.idx]
		// black-box replay on the unmodified binary
		rr := x.realStable("default", c.Files, c.Argv)
		ra := x.realStable("default", map[string]string{file: probeSrc}, []string{file})
		pre := nPrelude
		if strings.HasPrefix(it.name, "corpus:") {
			pre = 0
		}
		bb := restrictRebase(rr.Stdout, file, pre+it.lines) != restrictRebase(ra.Stdout, file, 0)
		note := "builtin table changed (dump hook); probe block output unchanged on the real binary"
		if bb {
			note = "probe block prints different types after this program than alone (reproduced on the unmodified binary)"
			r.Validated++
		} else if v.kind == "probe-output-differs" {
			r.Unconfirmed = append(r.Unconfirmed, s+" (probe difference not reproduced on the real binary)")
			continue
		}
		for i := range bySig[s] {
			if i == 0 {
				r.Report(s, fmt.Sprintf("%s (%d programs): %s; program: %q", s, len(bySig[s]), note, head(it.name, 100)),
					ReplayDoc{Cfg: "default", Files: c.Files, Argv: c.Argv, Observed: head(restrictRebase(rr.Stdout, file, pre+it.lines), 1500),
						Expected: head(restrictRebase(ra.Stdout, file, 0), 1500), Note: note})
			} else {
				r.Report(s, "", nil)
			}
		}
	}
	r.Bounds = map[string]any{"alphabet": len(c12Alphabet), "depth": depth, "sequences": nSeq, "subclass_programs": nSub, "default_argument_programs": nDef,"corpus_programs": nCorpus, "probe_lines": len(probes)}
	r.Sample(map[string]any{"prelude": c12Prelude, "sequence": "u * 2 ; a.first", "then": "probe block (" + fmt.Sprint(len(probes)) + " lines)"})
	r.Sample(map[string]any{"probe_lines": probes[:6]})
	// conformance slice
	var recs []execRec
	for i := 0; i < len(cases) && i < 400; i += 13 {
		if !res[i].Abnormal() {
			recs = append(recs, execRec{"default", cases[i].Files, cases[i].Argv, res[i].Stdout})
		}
	}
	x.validateAgainstReal(recs, 20)
}

func lastStmt(body string) string {
	ls := strings.Split(strings.TrimSuffix(body, "\n"), "\n")
	return ls[len(ls)-1]
}
