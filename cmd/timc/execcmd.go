package main

import (
	"encoding/json"
	"fmt"
	"os"

	"verif/internal/engine"
)

// timc exec <file> [flags…] : run one file on the in-process engine and on the real binary (debug aid).
func init() {
	extra["exec"] = func(args []string) int {
		bins, err := engine.Build()
		if err != nil {
			fmt.Println("HARNESS-ERROR", err)
			return 2
		}
		pool := engine.NewPool(bins, 1)
		defer pool.Close()
		src, err := os.ReadFile(args[0])
		if err != nil {
			fmt.Println(err)
			return 2
		}
		files := map[string]string{"t.rb": string(src)}
		argv := append([]string{"t.rb"}, args[1:]...)
		res := pool.RunAll([]*engine.Case{{Files: files, Argv: argv, Order: os.Getenv("VERIF_ORDER"), Dump: os.Getenv("VERIF_DUMP")}})
		b, _ := json.MarshalIndent(res[0], "", " ")
		fmt.Println(string(b))
		rr := pool.RunReal("default", files, argv)
		fmt.Printf("--- real exit=%d\n%s%s", rr.Exit, rr.Stdout, head(rr.Stderr, 1500))
		return 0
	}
}
