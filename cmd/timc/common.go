package main

import (
	"encoding/base64"
	"encoding/json"
	"fmt"
	"os"
	"regexp"
	"sort"
	"strings"
	"time"
	"unicode/utf8"

	"verif/internal/engine"
	"verif/internal/gen"
)

// ReplayDoc is what a violation's replay file carries: enough to rerun the case on the real binary.
type ReplayDoc struct {
	Cfg      string            `json:"cfg"`                 // "default" = /repo/test/.ti-config, "none", or "inline"
	CfgFiles map[string]string `json:"cfg_files,omitempty"` // for inline configurations
	Files    map[string]string `json:"files"`
	Argv     []string          `json:"argv"`
	Order    string            `json:"order,omitempty"`
	Observed string            `json:"observed"`
	Expected string            `json:"expected,omitempty"`
	Other    *ReplayDoc        `json:"other,omitempty"` // the second execution of a metamorphic pair
	Note     string            `json:"note,omitempty"`
}

// Source files that are not valid UTF-8 are stored base64-encoded under files_b64 (JSON cannot carry them).
type replayDocWire ReplayDoc

func (d ReplayDoc) MarshalJSON() ([]byte, error) {
	w := struct {
		replayDocWire
		FilesB64 map[string]string `json:"files_b64,omitempty"`
	}{replayDocWire: replayDocWire(d)}
	for k, v := range d.Files {
		if !utf8.ValidString(v) {
			if w.FilesB64 == nil {
				w.FilesB64 = map[string]string{}
				w.Files = map[string]string{}
				for k2, v2 := range d.Files {
					w.Files[k2] = v2
				}
			}
			delete(w.Files, k)
			w.FilesB64[k] = base64.StdEncoding.EncodeToString([]byte(v))
		}
	}
	return json.Marshal(w)
}

func (d *ReplayDoc) UnmarshalJSON(b []byte) error {
	var w struct {
		replayDocWire
		FilesB64 map[string]string `json:"files_b64,omitempty"`
	}
	if err := json.Unmarshal(b, &w); err != nil {
		return err
	}
	*d = ReplayDoc(w.replayDocWire)
	for k, v := range w.FilesB64 {
		raw, err := base64.StdEncoding.DecodeString(v)
		if err != nil {
			return err
		}
		if d.Files == nil {
			d.Files = map[string]string{}
		}
		d.Files[k] = string(raw)
	}
	return nil
}

func replay(path string) int {
	b, err := os.ReadFile(path)
	if err != nil {
		fmt.Println("cannot read", path, err)
		return 2
	}
	var doc struct {
		Property string    `json:"property"`
		Sig      string    `json:"sig"`
		Title    string    `json:"title"`
		Replay   ReplayDoc `json:"replay"`
	}
	if err := json.Unmarshal(b, &doc); err != nil {
		fmt.Println("bad replay file:", err)
		return 2
	}
	bins, err := engine.Build()
	if err != nil {
		fmt.Println("HARNESS-ERROR", err)
		return 2
	}
	pool := engine.NewPool(bins, 1)
	defer pool.Close()
	fmt.Printf("property=%s sig=%s\n%s\n", doc.Property, doc.Sig, doc.Title)
	show := func(d *ReplayDoc, label string) {
		cfg := d.Cfg
		if cfg == "inline" {
			if len(d.CfgFiles) == 0 {
				// checks that run under the 21 core configuration files do not repeat them in every replay file
				d.CfgFiles = gen.CoreConfig(engine.RepoRoot)
			} else if strings.Contains(d.Note, "plus the 21 core configuration files") || strings.Contains(d.Note, "(plus the 21 core") {
				d.CfgFiles = gen.Merge(gen.CoreConfig(engine.RepoRoot), d.CfgFiles)
			}
			pool.NewCfgDir("replay-"+label, d.CfgFiles)
			cfg = "replay-" + label
		}
		rr := pool.RunReal(cfg, d.Files, d.Argv)
		fmt.Printf("--- %s: ti %s  (exit %d)\n%s", label, strings.Join(d.Argv, " "), rr.Exit, rr.Stdout)
		if rr.Stderr != "" {
			fmt.Printf("--- stderr\n%s", head(rr.Stderr, 800))
		}
		if d.Expected != "" {
			fmt.Printf("--- expected\n%s\n", d.Expected)
		}
	}
	show(&doc.Replay, "case")
	if doc.Replay.Other != nil {
		show(doc.Replay.Other, "other")
	}
	return 0
}

func head(s string, n int) string {
	if len(s) <= n {
		return s
	}
	return s[:n] + "…"
}

// stream runs generated cases through the pool.
func (x *ctx) stream(gen func(emit func(*engine.Case)), sink func(*engine.Case, *engine.Result)) {
	src := make(chan *engine.Case, 256)
	go func() {
		id := 0
		gen(func(c *engine.Case) {
			c.ID = id
			id++
			src <- c
		})
		close(src)
	}()
	x.pool.Run(src, sink)
}

var panicClassRe = regexp.MustCompile(`[0-9]+`)

func panicClass(v string) string {
	switch {
	case strings.Contains(v, "nil pointer"):
		return "nil-deref"
	case strings.Contains(v, "index out of range"):
		return "index-out-of-range"
	case strings.Contains(v, "slice bounds"):
		return "slice-bounds"
	case strings.Contains(v, "interface conversion"):
		return "interface-conversion"
	case strings.Contains(v, "nil map"):
		return "nil-map"
	}
	v = panicClassRe.ReplaceAllString(v, "N")
	return head(v, 40)
}

// realCrashed decides from an E-real run whether the process crashed (Go panic / fatal error / bad exit).
func realCrashed(rr *engine.RealResult) bool {
	if strings.Contains(rr.Stderr, "panic:") || strings.Contains(rr.Stderr, "fatal error:") || strings.Contains(rr.Stderr, "goroutine ") {
		return true
	}
	return rr.Exit != 0 && strings.TrimSpace(rr.Stdout) != "timeout"
}

// realHung: E-real printed `timeout` in 3 of 3 serial runs.
func (x *ctx) realHung(cfg string, files map[string]string, argv []string) bool {
	for i := 0; i < 3; i++ {
		rr := x.pool.RunReal(cfg, files, argv)
		if strings.TrimSpace(rr.Stdout) != "timeout" && !rr.TimedOut {
			return false
		}
	}
	return true
}

// realStable runs E-real, retrying when the watchdog fired (spurious under load).
func (x *ctx) realStable(cfg string, files map[string]string, argv []string) *engine.RealResult {
	var rr *engine.RealResult
	for i := 0; i < 4; i++ {
		rr = x.pool.RunReal(cfg, files, argv)
		if strings.TrimSpace(rr.Stdout) != "timeout" {
			return rr
		}
		time.Sleep(50 * time.Millisecond)
	}
	return rr
}

// validateAgainstReal replays a seed-rotated slice of executed cases on the unmodified binary and
// compares stdout byte-for-byte. A divergence is a harness problem (never a violation): it is
// recorded in the evidence and the run is marked non-exhaustive.
type execRec struct {
	cfg   string
	files map[string]string
	argv  []string
	out   string
}

func (x *ctx) validateAgainstReal(recs []execRec, n int) {
	if len(recs) == 0 {
		return
	}
	if n > len(recs) {
		n = len(recs)
	}
	step := len(recs) / n
	if step == 0 {
		step = 1
	}
	off := int(x.seed % int64(step))
	if off < 0 {
		off = -off
	}
	var div []string
	done := 0
	sem := make(chan struct{}, 4)
	type res struct {
		ok  bool
		msg string
	}
	ch := make(chan res, n)
	cnt := 0
	for i := off; i < len(recs) && cnt < n; i += step {
		cnt++
		rec := recs[i]
		sem <- struct{}{}
		go func() {
			defer func() { <-sem }()
			rr := x.realStable(rec.cfg, rec.files, rec.argv)
			// the in-process result travels as JSON: bytes that are not valid UTF-8 arrive as U+FFFD
			same := rr.Stdout == rec.out || string([]rune(rr.Stdout)) == rec.out
			for _, a := range rec.argv {
				if a == "--define" { // records of --define form an unordered set (C05)
					same = sortedLines(rr.Stdout) == sortedLines(rec.out)
				}
			}
			if !same && strings.TrimSpace(rr.Stdout) == "timeout" {
				ch <- res{true, "skipped"} // watchdog fired under load even after retries: neither validated nor divergent
			} else if same {
				ch <- res{true, ""}
			} else {
				ch <- res{false, fmt.Sprintf("argv=%v inproc=%q real=%q", rec.argv, head(rec.out, 200), head(rr.Stdout, 200))}
			}
		}()
	}
	for i := 0; i < cnt; i++ {
		r := <-ch
		if r.ok && r.msg == "skipped" {
			continue
		}
		if r.ok {
			done++
		} else {
			div = append(div, r.msg)
		}
	}
	x.run.Validated += int64(done)
	if len(div) > 0 {
		sort.Strings(div)
		x.run.Extra["engine_divergence"] = div
		x.run.CapsHit = append(x.run.CapsHit, fmt.Sprintf("engine divergence on %d validated cases", len(div)))
	}
}

// lineGrammar checks that every stdout line is a diagnostic / hint for file (C01) or additionally a
// %/@/$ record (C04).
func badLine(out, file string, editor bool) string {
	if out == "" {
		return ""
	}
	for _, l := range strings.Split(strings.TrimSuffix(out, "\n"), "\n") {
		if strings.HasPrefix(l, file+":::") && rowOK(l[len(file)+3:]) {
			continue
		}
		if strings.HasPrefix(l, "@"+file+":::") && rowOK(l[len(file)+4:]) {
			continue
		}
		if editor {
			if strings.HasPrefix(l, "%") && strings.Contains(l, ":::") {
				continue
			}
			if strings.HasPrefix(l, "@") || strings.HasPrefix(l, "$") {
				continue
			}
		}
		return l
	}
	return ""
}

func rowOK(rest string) bool {
	i := strings.Index(rest, ":::")
	if i <= 0 {
		return false
	}
	for _, c := range rest[:i] {
		if c < '0' || c > '9' {
			return false
		}
	}
	return true
}
