package main

import (
	"bytes"
	"encoding/json"
	"fmt"
	"os"
	"os/exec"
	"path/filepath"
	"sort"
	"strings"
	"sync"

	"verif/internal/engine"
	"verif/internal/gen"
)

func init() { register("C03", c03) }

type lexFinding struct {
	Sig     string `json:"sig"`
	Count   int64  `json:"count"`
	Example string `json:"-"`
	Raw     []byte `json:"example_raw"`
}

type lexSummary struct {
	Strings  int64                  `json:"strings"`
	Tokens   int64                  `json:"tokens"`
	MaxTicks int64                  `json:"max_ticks"`
	Findings map[string]*lexFinding `json:"findings"`
	Kinds    map[string]int64       `json:"kinds"`
	Alphabet int                    `json:"alphabet"`
	MaxLen   int                    `json:"max_len"`
}

func c03(x *ctx) {
	r := x.run
	r.Rule = "every string over the 50-rune alphabet (one representative per lexer branch, incl. NUL, U+FFFD, non-ASCII blanks) up to the length bound, every string over the 65-atom wide alphabet (the 50 runes plus non-ASCII decimal digits, upper-case letter, symbol, astral rune, U+2028/2029, BOM, DEL, VT, FF, combining mark and three ill-formed byte sequences) up to its shorter bound, " +
		"each also with a final newline, plus every rune prefix of every corpus program; each string is fed to the real lexer.Advance loop and the real parser.Read loop; " +
		"non-trivial = the string produced at least one token"
	r.Assumptions = []string{"strings longer than the bound are covered only through corpus prefixes", "rune alphabet chosen by reading lexer.Advance: one representative per case label and helper predicate"}
	type job struct {
		args []string
		name string
	}
	var jobs []job
	n := 16
	lenR50, lenR30, lenWide := 4, 0, 3
	if x.tier == "thorough" {
		lenR50, lenR30, lenWide = 5, 6, 4
	}
	for i := 0; i < n; i++ {
		jobs = append(jobs, job{[]string{"-len", fmt.Sprint(lenWide), "-alphabet", "wide", "-shard", fmt.Sprint(i), "-nshard", fmt.Sprint(n)}, "wide"})
	}
	for i := 0; i < n; i++ {
		jobs = append(jobs, job{[]string{"-len", fmt.Sprint(lenR50), "-alphabet", "r50", "-shard", fmt.Sprint(i), "-nshard", fmt.Sprint(n)}, "r50"})
	}
	if lenR30 > 0 {
		for i := 0; i < n; i++ {
			jobs = append(jobs, job{[]string{"-len", fmt.Sprint(lenR30), "-alphabet", "r30", "-shard", fmt.Sprint(i), "-nshard", fmt.Sprint(n)}, "r30"})
		}
	}
	// corpus prefixes
	corpus := gen.Corpus(engine.RepoRoot)
	cf := filepath.Join(x.pool.Scratch, "corpus.jsonl")
	var cb bytes.Buffer
	for _, p := range corpus {
		b, _ := json.Marshal(p.Src)
		cb.Write(b)
		cb.WriteByte('\n')
	}
	os.WriteFile(cf, cb.Bytes(), 0o644)
	for i := 0; i < n; i++ {
		jobs = append(jobs, job{[]string{"-corpus", cf, "-shard", fmt.Sprint(i), "-nshard", fmt.Sprint(n)}, "corpus-prefixes"})
	}
	r.Bounds = map[string]any{"alphabet_r50_len": lenR50, "alphabet_r30_len": lenR30, "alphabet_wide65_len": lenWide, "corpus_programs": len(corpus), "final_newline_variants": true}

	total := lexSummary{Findings: map[string]*lexFinding{}, Kinds: map[string]int64{}}
	var mu sync.Mutex
	var wg sync.WaitGroup
	sem := make(chan struct{}, 16)
	var harnessErr error
	famStrings := map[string]int64{}
	for _, j := range jobs {
		wg.Add(1)
		sem <- struct{}{}
		go func(j job) {
			defer wg.Done()
			defer func() { <-sem }()
			cmd := exec.Command(x.bins.Lexmc, j.args...)
			cmd.Env = append(os.Environ(), "GOMAXPROCS=1")
			var so, se bytes.Buffer
			cmd.Stdout, cmd.Stderr = &so, &se
			err := cmd.Run()
			mu.Lock()
			defer mu.Unlock()
			if err != nil {
				harnessErr = fmt.Errorf("lexmc %v: %v: %s", j.args, err, head(se.String(), 400))
				return
			}
			var s lexSummary
			if err := json.Unmarshal(so.Bytes(), &s); err != nil {
				harnessErr = fmt.Errorf("lexmc %v: bad output: %v", j.args, err)
				return
			}
			total.Strings += s.Strings
			total.Tokens += s.Tokens
			famStrings[j.name] += s.Strings
			if s.MaxTicks > total.MaxTicks {
				total.MaxTicks = s.MaxTicks
			}
			for k, v := range s.Kinds {
				total.Kinds[k] += v
			}
			for k, f := range s.Findings {
				f.Example = string(f.Raw)
				t := total.Findings[k]
				if t == nil {
					total.Findings[k] = f
				} else {
					t.Count += f.Count
					if len(f.Example) < len(t.Example) || len(f.Example) == len(t.Example) && f.Example < t.Example {
						t.Example = f.Example
					}
				}
			}
		}(j)
	}
	wg.Wait()
	if harnessErr != nil {
		panic(harnessErr)
	}
	r.Evaluations = total.Strings
	r.States = total.Strings
	r.Transitions = total.Tokens
	r.Nontrivial = total.Strings - 1
	r.Extra["token_kinds_seen"] = total.Kinds
	r.Extra["max_reader_ticks_per_string"] = total.MaxTicks
	r.Extra["strings_per_family"] = famStrings
	for k, v := range total.Kinds {
		r.Outcomes["kind:"+k] = v
	}
	var sigs []string
	for k := range total.Findings {
		sigs = append(sigs, k)
	}
	sort.Strings(sigs)
	for _, sig := range sigs {
		f := total.Findings[sig]
		r.Outcomes["finding:"+sig] = f.Count
		// confirm on the unmodified binary
		files := map[string]string{"t.rb": f.Example}
		ok := false
		var observed string
		switch {
		case strings.Contains(sig, "hang"):
			ok = x.realHung("default", files, []string{"t.rb"})
			observed = "timeout"
		case strings.HasPrefix(sig, "parser-error"):
			rr := x.realStable("default", files, []string{"t.rb"})
			observed = rr.Stdout
			ok = strings.Contains(rr.Stdout, "read error")
		case strings.Contains(sig, "too-many-tokens"):
			// more tokens than runes: the token stream does not end. The binary either hangs or, when the
			// analysis gives up on its own, never sees what follows
			observed = "timeout"
			ok = x.realHung("default", files, []string{"t.rb"})
			if !ok {
				files = map[string]string{"t.rb": f.Example + "\n1.zzq\n"}
				rr := x.realStable("default", files, []string{"t.rb"})
				observed = rr.Stdout
				ok = !strings.Contains(rr.Stdout, "zzq")
			}
		case strings.HasPrefix(sig, "unconsumed"):
			files = map[string]string{"t.rb": f.Example + "\n1.zzq\n"}
			rr := x.realStable("default", files, []string{"t.rb"})
			observed = rr.Stdout
			ok = !strings.Contains(rr.Stdout, "zzq")
		default:
			rr := x.realStable("default", files, []string{"t.rb"})
			observed = rr.Stdout + rr.Stderr
			ok = realCrashed(rr) || strings.Contains(rr.Stdout, "internal error")
		}
		if !ok {
			r.Unconfirmed = append(r.Unconfirmed, fmt.Sprintf("%s example=%q", sig, f.Example))
			continue
		}
		r.Validated++
		for i := int64(0); i < f.Count; i++ {
			if i == 0 {
				r.Report(sig, fmt.Sprintf("%s (%d strings); smallest %q", sig, f.Count, f.Example),
					ReplayDoc{Cfg: "default", Files: files, Argv: []string{"t.rb"}, Observed: head(observed, 600),
						Expected: "tokenizing reaches end of stream having consumed every rune; no `read error`, no hang"})
			} else {
				r.Report(sig, "", nil)
			}
			if i > 50 {
				break
			}
		}
	}
	// conformance of the explorer with the real binary on well-behaved strings: tokens drive the real
	// analysis, so a seed-rotated handful of enumerated strings is analysed by E-real and E-inproc alike.
	var recs []execRec
	probe := []string{"a = 1\n", "x.y(1, \"s\")\n", "%w[a b]\n", "a<<1\n", "# c\n1.foo\n", "\"s\\\"t\"\n'q'.zz\n", "1..2\n", "a&.b\n", ":s.q\n", "@i = 1.5\n"}
	var cases []*engine.Case
	for _, s := range probe {
		cases = append(cases, &engine.Case{Files: map[string]string{"t.rb": s}, Argv: []string{"t.rb", "-i"}})
	}
	for i, res := range x.pool.RunAll(cases) {
		recs = append(recs, execRec{"default", cases[i].Files, cases[i].Argv, res.Stdout})
	}
	x.validateAgainstReal(recs, len(recs))
	r.Sample(map[string]any{"string": "a:\"b", "with_final_newline": "a:\"b\n"})
	r.Sample(map[string]any{"string": "\x00<%", "note": "NUL, then '<' and '%' at EOF"})
	r.Sample(map[string]any{"string": "`#{", "note": "back-tick then interpolation opener"})
}
