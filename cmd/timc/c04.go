package main

import (
	"fmt"
	"sort"
	"strings"

	"verif/internal/engine"
	"verif/internal/gen"
)

func init() { register("C04", c04) }

func c04(x *ctx) {
	r := x.run
	thorough := x.tier == "thorough"
	r.Rule = "programs (corpus, generated, line-boundary prefixes, and cursor-after-dot variants: the file cut after an identifier/)/] at a line end with `.` appended, with and without the rest of the file; and the buffer cut right after an identifier with a just-opened construct appended: `[`, `[0`, `(`, `(1, `, ` do |`, ` { |v`, `.zq(`, `[:k`, ` = [`, ` = {a: `) " +
		"x every row 0..lines+2 (cursor variants: rows cursor-1..cursor+1) x {--suggest, --hover, --define}; each executed on the real code: exit status 0, no Go panic, no hang, every output line a %/@/$ record or a diagnostic of the target file; " +
		"non-trivial = prints at least one record"
	modes := []string{"--suggest", "--hover", "--define"}
	corpus := gen.Corpus(engine.RepoRoot)
	small := gen.SortBySize(corpus)
	progs := append(gen.Generated(), gen.OddLiteralPrograms()...)
	progs = append(progs, corpus...)
	type cand struct {
		c   *engine.Case
		res *engine.Result
	}
	bySig := map[string][]cand{}
	sitesSeen := map[string]int{}
	famCount := map[string]int{}
	var recs []execRec
	nCursor := 0
	x.stream(func(emit func(*engine.Case)) {
		em := func(fam, name, src string, row int, mode string) {
			emit(&engine.Case{Files: map[string]string{name: src}, Argv: []string{name, mode, fmt.Sprintf("--row=%d", row)}, Tag: fam})
		}
		// (a) every row of every program
		for pi, p := range progs {
			lines := strings.Count(p.Src, "\n") + 1
			step := 1
			if !thorough && lines > 60 {
				step = 3 // quick: every third row of long files (documented bound)
			}
			for row := 0; row <= lines+2; row += step {
				for _, m := range modes {
					em("all-rows", p.Name, p.Src, row, m)
				}
			}
			_ = pi
		}
		// (b) line-boundary prefixes and cursor-after-dot variants
		nVar := 120
		if thorough {
			nVar = len(small)
		}
		genProgs := gen.Generated()
		for pi, p := range append(append([]gen.Prog{}, genProgs...), small...) {
			if pi >= nVar+len(genProgs) {
				break
			}
			ls := strings.Split(strings.TrimSuffix(p.Src, "\n"), "\n")
			for k := 1; k <= len(ls); k++ {
				prefix := strings.Join(ls[:k], "\n")
				last := strings.TrimRight(ls[k-1], " \t")
				if thorough || k%2 == 0 {
					for _, m := range modes {
						em("line-prefix", p.Name, prefix+"\n", k, m)
					}
				}
				if last == "" {
					continue
				}
				c := last[len(last)-1]
				if !(c == ')' || c == ']' || c == '_' || c >= 'a' && c <= 'z' || c >= 'A' && c <= 'Z' || c >= '0' && c <= '9') {
					continue
				}
				nCursor++
				withDot := strings.Join(ls[:k-1], "\n")
				if k > 1 {
					withDot += "\n"
				}
				withDot += last + "."
				// the buffer ends inside a construct the user has just opened after that identifier
				if c != ')' && c != ']' {
					for oi, open := range []string{"[", "[0", "(", "(1, ", " do |", " { |v", ".zq(", "[:k", " = [", " = {a: "} {
						if !thorough && (k+oi)%3 != 0 {
							continue // quick: a third of the (line, construct) pairs
						}
						cut := strings.TrimSuffix(withDot, ".") + open
						for _, m := range modes {
							if !thorough && m != []string{"--suggest", "--hover", "--define"}[(k+oi)%3] {
								continue
							}
							em("cursor-in-open-construct", p.Name, cut, k, m)
						}
					}
				}
				variants := []string{withDot + "\n", withDot + "\n" + strings.Join(ls[k:], "\n") + "\n", withDot}
				for vi, v := range variants {
					for _, row := range []int{k - 1, k, k + 1} {
						for _, m := range modes {
							if !thorough && (vi == 2 && m != "--suggest") {
								continue
							}
							em("cursor-after-dot", p.Name, v, row, m)
						}
					}
				}
			}
		}
	}, func(c *engine.Case, res *engine.Result) {
		r.Evaluations++
		r.Transitions++
		fam := c.Tag.(string)
		famCount[fam]++
		if res.Stdout != "" {
			r.Nontrivial++
		}
		name := c.Argv[0]
		sig := ""
		switch {
		case res.Died:
			sig = "died:" + res.DiedKind
		case res.Deadline:
			sig = "hang:deadline"
		case res.Hang:
			sig = "hang:" + res.HangSite
		case res.CrashSite != "":
			sig = "crash:" + res.CrashSite + ":" + panicClass(res.CrashValue)
		case res.Exit != 0:
			sig = fmt.Sprintf("exit:%d", res.Exit)
		default:
			if bl := badLine(res.Stdout, name, true); bl != "" {
				sig = "badline:" + c.Argv[1] + ":" + lineShape(bl)
			}
		}
		r.Outcome(c.Argv[1] + "|" + sig + "|" + outcomeShape(res.Stdout, name))
		if sig == "" {
			if len(recs) < 100000 {
				recs = append(recs, execRec{"default", c.Files, c.Argv, res.Stdout})
			}
			return
		}
		sig = c.Argv[1] + ":" + sig
		sitesSeen[sig]++
		if len(bySig[sig]) < 3 {
			bySig[sig] = append(bySig[sig], cand{c, res})
		}
	})
	r.States = r.Evaluations
	r.Extra["families"] = famCount
	r.Extra["abnormal_signatures"] = sitesSeen
	r.Bounds = map[string]any{"programs": len(progs), "cursor_after_dot_sites": nCursor, "modes": modes, "rows": "0..lines+2 (quick: every third row for files over 60 lines)"}
	var sigs []string
	for s := range bySig {
		sigs = append(sigs, s)
	}
	sort.Strings(sigs)
	for _, sig := range sigs {
		confirmed := false
		for _, cd := range bySig[sig] {
			name := cd.c.Argv[0]
			var ok bool
			var rr *engine.RealResult
			if strings.Contains(sig, ":hang:") {
				ok = x.realHung("default", cd.c.Files, cd.c.Argv)
				rr = &engine.RealResult{Stdout: "timeout\n"}
			} else {
				rr = x.realStable("default", cd.c.Files, cd.c.Argv)
				if strings.Contains(sig, ":badline:") {
					ok = badLine(rr.Stdout, name, true) != ""
				} else {
					ok = realCrashed(rr)
				}
			}
			if ok {
				r.Validated++
				confirmed = true
				for k := 0; k < sitesSeen[sig]; k++ {
					if k == 0 {
						r.Report(sig, fmt.Sprintf("%s (%d cases); argv %v; input %q", sig, sitesSeen[sig], cd.c.Argv, head(cd.c.Files[name], 160)),
							ReplayDoc{Cfg: "default", Files: cd.c.Files, Argv: cd.c.Argv, Observed: head(rr.Stdout+rr.Stderr, 1500),
								Expected: "exit status 0; only %/@/$ records or diagnostics of the target file; no panic, no `timeout`"})
					} else {
						r.Report(sig, "", nil)
					}
				}
				break
			}
		}
		if !confirmed {
			c := bySig[sig][0].c
			r.Unconfirmed = append(r.Unconfirmed, fmt.Sprintf("%s argv=%v", sig, c.Argv))
		}
	}
	x.validateAgainstReal(recs, 80)
	r.Sample(map[string]any{"family": "cursor-after-dot", "input": "a = [1]\na.", "argv": []string{"t.rb", "--suggest", "--row=2"}})
	if len(recs) > 0 {
		k := int((x.seed%int64(len(recs)) + int64(len(recs))) % int64(len(recs)))
		r.Sample(map[string]any{"argv": recs[k].argv, "stdout": head(recs[k].out, 300)})
	}
}
