package main

import "fmt"

func selftest(args []string) int {
	fmt.Println("selftest: see /verif/seeded and run_seeded.sh")
	return 0
}
