package main

import (
	"fmt"
	"os"
	"regexp"
	"sort"
	"strings"

	"verif/internal/engine"
	"verif/internal/gen"
	"verif/internal/ref"
)

func init() { register("C23", c23) }

func c23(x *ctx) {
	r := x.run
	r.Rule = "receivers: an instance of every configured class with a literal form, every configured class with class methods as class receiver, and generated user hierarchies (class with public/private/class methods, a subclass, an included module) as instance and as class; " +
		"forms: `recv.` followed by more code, `recv.` as the last line, inside a method body; --suggest --row=<that row>. Reference: names of the instance methods of the class and its ancestors incl. Object/Kernel (class receivers: class methods of the class and its ancestors; Object/Kernel names tolerated); " +
		"every reference name must be listed, nothing outside the allowed set may be listed, no private method of a user class for an outside receiver. non-trivial = all"
	core := gen.CoreConfig(engine.RepoRoot)
	cfg := ref.Load(core)
	// ancestors' instance method names
	instNames := func(cls string) map[string]bool {
		out := map[string]bool{}
		seen := map[string]bool{}
		var walk func(k string)
		walk = func(k string) {
			if seen[k] {
				return
			}
			seen[k] = true
			cl := cfg.Classes[k]
			if cl == nil {
				return
			}
			for n := range cl.Inst {
				out[n] = true
			}
			for _, e := range cl.Extends {
				walk(e)
			}
		}
		walk(cls)
		walk("")
		walk("Kernel")
		return out
	}
	objKernel := instNames("")
	// Object's class methods (`methods`) and top-level user methods (private methods of Object) can be
	// answered by every object
	if oc := cfg.Classes[""]; oc != nil {
		for n := range oc.Stat {
			objKernel[n] = true
		}
	}
	objKernel["zz_wrapper"] = true
	statNames := func(cls string) map[string]bool {
		out := map[string]bool{}
		seen := map[string]bool{}
		var walk func(k string)
		walk = func(k string) {
			if seen[k] {
				return
			}
			seen[k] = true
			cl := cfg.Classes[k]
			if cl == nil {
				return
			}
			for n := range cl.Stat {
				out[n] = true
			}
			for _, e := range cl.Extends {
				walk(e)
			}
		}
		walk(cls)
		return out
	}
	type prog struct {
		src      string
		row      int
		required map[string]bool
		allowed  map[string]bool
		forbid   map[string]bool
		feat     string
	}
	var progs []prog
	union := func(ms ...map[string]bool) map[string]bool {
		o := map[string]bool{}
		for _, m := range ms {
			for k := range m {
				o[k] = true
			}
		}
		return o
	}
	forms := []string{"mid-file", "last-line", "in-method", "bare", "bare-reassigned-later"}
	mk := func(setup, recv string, required, allowed, forbid map[string]bool, feat string) {
		for _, f := range forms {
			var src string
			var row int
			switch f {
			case "mid-file":
				src = setup + recv + ".\nzz_after = 1\n"
				row = strings.Count(setup, "\n") + 1
			case "last-line":
				src = setup + recv + ".\n"
				row = strings.Count(setup, "\n") + 1
			case "bare-reassigned-later":
				// the receiver variable gets a value of another class on a later row: the cursor row's type counts
				if !regexp.MustCompile(`^[a-z][a-z0-9_]*$`).MatchString(recv) {
					continue
				}
				src = setup + recv + "\nzz_after = 1\n" + recv + " = :zq_other\n" + recv + ".to_s\n"
				row = strings.Count(setup, "\n") + 1
			case "bare":
				// the form the editor plugin (and the goldens) use: the receiver alone on the row
				src = setup + recv + "\nzz_after = 1\n"
				row = strings.Count(setup, "\n") + 1
			case "in-method":
				// a top-level local is not visible inside the method: rebuild the receiver there
				expr := recv
				if e, ok := map[string]string{"ua": "Animal.new", "up": "Puppy.new", "uh": "Holder.new", "uk": "Nsp::Kid.new", "ui": "Nsp::Inc.new", "uv": "Visq.new", "uw": "Visr.new", "uq": "Itemq.new", "ur": "Itemr.new", "ux": "Itemk.new"}[recv]; ok {
					expr = e
				} else if recv == "rv" {
					continue
				}
				src = setup + "def zz_wrapper\n  zz_r = " + expr + "\n  zz_r.\n  1\nend\nzz_wrapper\n"
				row = strings.Count(setup, "\n") + 3
			}
			progs = append(progs, prog{src, row, required, allowed, forbid, feat + ":" + f})
		}
	}
	lits := []struct{ cls, lit string }{{"Integer", "1"}, {"String", "\"s\""}, {"Float", "1.5"}, {"NilClass", "nil"}, {"Symbol", ":s"}, {"Array", "[1]"}, {"Hash", "{k: 1}"}, {"Range", "(1..2)"}, {"Bool", "true"}}
	for _, l := range lits {
		req := instNames(l.cls)
		mk("rv = "+l.lit+"\n", "rv", req, union(req, objKernel), nil, "instance:"+l.cls)
		mk("", l.lit, req, union(req, objKernel), nil, "literal:"+l.cls)
	}
	var cnames []string
	for n, cl := range cfg.Classes {
		if n != "" && len(cl.Stat) > 0 {
			cnames = append(cnames, n)
		}
	}
	sort.Strings(cnames)
	for _, n := range cnames {
		req := statNames(n)
		mk("", n, req, union(req, objKernel), nil, "class:"+n)
	}
	// user hierarchy
	userDefs := "module Helpmod\n  def helped\n    1\n  end\nend\nclass Animal\n  include Helpmod\n  def speak\n    1\n  end\n\n  def self.create\n    Animal.new\n  end\n\n  private\n\n  def secret\n    2\n  end\nend\nclass Puppy < Animal\n  def fetch\n    3\n  end\n\n  def self.adopt\n    Puppy.new\n  end\nend\nclass Stranger\n  def unrelated_m\n    1\n  end\nend\n"
	uInstA := map[string]bool{"speak": true, "helped": true}
	uInstP := map[string]bool{"speak": true, "helped": true, "fetch": true}
	forbidPriv := map[string]bool{"secret": true, "unrelated_m": true}
	mk(userDefs+"ua = Animal.new\n", "ua", union(uInstA, objKernel), union(uInstA, objKernel), forbidPriv, "user-instance:Animal")
	mk(userDefs+"up = Puppy.new\n", "up", union(uInstP, objKernel), union(uInstP, objKernel), forbidPriv, "user-instance:Puppy")
	mk(userDefs, "Animal", map[string]bool{"create": true, "new": true}, union(map[string]bool{"create": true, "new": true}, objKernel), map[string]bool{"speak": true, "secret": true, "adopt": true, "unrelated_m": true}, "user-class:Animal")
	mk(userDefs, "Puppy", map[string]bool{"create": true, "adopt": true, "new": true}, union(map[string]bool{"create": true, "adopt": true, "new": true}, objKernel), map[string]bool{"fetch": true, "secret": true, "unrelated_m": true}, "user-class:Puppy")

	// hierarchies inside a namespace and module-in-module inclusion
	nsDefs := "module Mone\n  def m_one\n    1\n  end\nend\nmodule Mtwo\n  include Mone\n  def m_two\n    2\n  end\nend\nclass Holder\n  include Mtwo\n  def own_h\n    3\n  end\nend\n" +
		"module Nsp\n  class Basis\n    def base_m\n      1\n    end\n  end\n  class Kid < Basis\n    def kid_m\n      2\n    end\n  end\n  class Inc\n    include Mone\n    def inc_m\n      3\n    end\n  end\nend\n"
	mk(nsDefs+"uh = Holder.new\n", "uh", map[string]bool{"own_h": true, "m_two": true, "m_one": true}, union(map[string]bool{"own_h": true, "m_two": true, "m_one": true}, objKernel), map[string]bool{"base_m": true, "kid_m": true, "inc_m": true}, "user-instance:Holder")
	mk(nsDefs+"uk = Nsp::Kid.new\n", "uk", map[string]bool{"kid_m": true, "base_m": true}, union(map[string]bool{"kid_m": true, "base_m": true}, objKernel), map[string]bool{"own_h": true, "inc_m": true, "m_two": true}, "user-instance:NspKid")
	mk(nsDefs+"ui = Nsp::Inc.new\n", "ui", map[string]bool{"inc_m": true, "m_one": true}, union(map[string]bool{"inc_m": true, "m_one": true}, objKernel), map[string]bool{"own_h": true, "kid_m": true, "base_m": true}, "user-instance:NspInc")
	// visibility sections around `class << self`: the class body is private when the block opens, the block has
	// its own private section, and instance methods follow the block (still private)
	visDefs := "class Visq\n  def bark\n    1\n  end\n\n  private\n\n  def hid_one\n    1\n  end\n\n  class << self\n    def build\n      Visq.new\n    end\n\n    private\n\n    def hid_c\n      1\n    end\n  end\n\n  def after_block\n    2\n  end\nend\n" +
		"class Visr\n  class << self\n    private\n\n    def hid_d\n      1\n    end\n  end\n\n  def open_after\n    3\n  end\nend\n"
	mk(visDefs+"uv = Visq.new\n", "uv", union(map[string]bool{"bark": true}, objKernel), union(map[string]bool{"bark": true}, objKernel), map[string]bool{"hid_one": true, "after_block": true, "hid_c": true, "build": true}, "user-instance:Visq")
	mk(visDefs, "Visq", map[string]bool{"build": true, "new": true}, union(map[string]bool{"build": true, "new": true}, objKernel), map[string]bool{"hid_c": true, "bark": true, "after_block": true, "hid_one": true}, "user-class:Visq")
	mk(visDefs+"uw = Visr.new\n", "uw", union(map[string]bool{"open_after": true}, objKernel), union(map[string]bool{"open_after": true}, objKernel), map[string]bool{"hid_d": true}, "user-instance:Visr")
	// the same module both extended and included (in both orders), and a subclass of such a class
	mixDefs := "module Tagq\n  def label\n    1\n  end\nend\nclass Itemq\n  extend Tagq\n  include Tagq\n  def own_q\n    2\n  end\nend\nclass Itemr\n  include Tagq\n  extend Tagq\n  def own_r\n    3\n  end\nend\nclass Itemk < Itemq\nend\n"
	mk(mixDefs+"uq = Itemq.new\n", "uq", union(map[string]bool{"label": true, "own_q": true}, objKernel), union(map[string]bool{"label": true, "own_q": true}, objKernel), map[string]bool{"own_r": true}, "user-instance:Itemq")
	mk(mixDefs+"ur = Itemr.new\n", "ur", union(map[string]bool{"label": true, "own_r": true}, objKernel), union(map[string]bool{"label": true, "own_r": true}, objKernel), map[string]bool{"own_q": true}, "user-instance:Itemr")
	mk(mixDefs+"ux = Itemk.new\n", "ux", union(map[string]bool{"label": true, "own_q": true}, objKernel), union(map[string]bool{"label": true, "own_q": true}, objKernel), map[string]bool{"own_r": true}, "user-instance:Itemk")
	mk(mixDefs, "Itemq", map[string]bool{"label": true, "new": true}, union(map[string]bool{"label": true, "new": true}, objKernel), map[string]bool{"own_q": true, "own_r": true}, "user-class:Itemq")
	cases := make([]*engine.Case, len(progs))
	for i, p := range progs {
		cases[i] = &engine.Case{Cfg: "core", Files: map[string]string{"t.rb": p.src}, Argv: []string{"t.rb", "--suggest", fmt.Sprintf("--row=%d", p.row)}}
	}
	res := x.pool.RunAll(cases)
	type viol struct {
		idx  int
		desc string
	}
	bySig := map[string][]viol{}
	var recs []execRec
	for i, rr := range res {
		r.Evaluations++
		r.Transitions++
		r.Nontrivial++
		p := progs[i]
		if rr.Abnormal() {
			s := "abnormal:" + outOf(rr)
			bySig[s] = append(bySig[s], viol{i, outOf(rr)})
			continue
		}
		r.Outcome(rr.Stdout)
		if i%7 == 0 {
			recs = append(recs, execRec{"core", cases[i].Files, cases[i].Argv, rr.Stdout})
		}
		got := map[string]bool{}
		for _, l := range strings.Split(rr.Stdout, "\n") {
			if strings.HasPrefix(l, "%") {
				if j := strings.Index(l, ":::"); j > 0 {
					got[l[1:j]] = true
				}
			}
		}
		var missing, extra, forbidden []string
		for n := range p.required {
			if !got[n] {
				missing = append(missing, n)
			}
		}
		for n := range got {
			if !p.allowed[n] {
				extra = append(extra, n)
			}
			if p.forbid[n] {
				forbidden = append(forbidden, n)
			}
		}
		sort.Strings(missing)
		sort.Strings(extra)
		sort.Strings(forbidden)
		f := strings.Split(p.feat, ":")
		kind, cls, form := f[0], f[1], f[2]
		_ = cls
		if len(missing) > 0 {
			what := "some"
			if len(got) == 0 {
				what = "everything"
			} else {
				own := 0
				for _, m := range missing {
					if !objKernel[m] {
						own++
					}
				}
				if own == len(missing) {
					what = "own-and-ancestor-methods"
				} else if own == 0 {
					what = "object-kernel-methods"
				}
			}
			// the signature pins the exact deviation (receiver, form, which part and how many are missing), so
			// that a different deviation of the same receiver is a different signature
			s := fmt.Sprintf("c23:missing-%s:%s:%s:%s:n=%d", what, kind, cls, form, len(missing))
			bySig[s] = append(bySig[s], viol{i, fmt.Sprintf("%s: %d of %d callable methods not suggested, e.g. %v", p.feat, len(missing), len(p.required), missing[:min(5, len(missing))])})
		}
		if len(forbidden) > 0 {
			s := fmt.Sprintf("c23:forbidden-listed:%s:%s:%s", kind, form, strings.Join(forbidden, ","))
			bySig[s] = append(bySig[s], viol{i, fmt.Sprintf("%s: suggests %v (private / unrelated / wrong kind)", p.feat, forbidden)})
		} else if len(extra) > 0 {
			s := fmt.Sprintf("c23:extra-listed:%s:%s:%s:%s", kind, cls, form, strings.Join(extra, ","))
			bySig[s] = append(bySig[s], viol{i, fmt.Sprintf("%s: %d suggestions the receiver cannot answer, e.g. %v", p.feat, len(extra), extra[:min(5, len(extra))])})
		}
	}
	r.States = r.Evaluations
	r.Extra["mismatching_signatures"] = len(bySig)
	if dbg := os.Getenv("VERIF_DEBUG_SIGS"); dbg != "" {
		var sb strings.Builder
		for s, vs := range bySig {
			fmt.Fprintf(&sb, "%d\t%s\t%s\n", len(vs), s, vs[0].desc)
		}
		os.WriteFile(dbg, []byte(sb.String()), 0o644)
	}
	var sigs []string
	for s := range bySig {
		sigs = append(sigs, s)
	}
	sort.Strings(sigs)
	for _, s := range sigs {
		vs := bySig[s]
		v := vs[0]
		if r.Known(s) == nil {
			rr := x.realStable("core", cases[v.idx].Files, cases[v.idx].Argv)
			if rr.Stdout != res[v.idx].Stdout {
				r.Unconfirmed = append(r.Unconfirmed, s+" (real binary prints something else)")
				continue
			}
			r.Validated++
		}
		for i := range vs {
			if i == 0 {
				r.Report(s, fmt.Sprintf("%s (%d cases): %s", s, len(vs), v.desc),
					ReplayDoc{Cfg: "inline", Files: cases[v.idx].Files, Argv: cases[v.idx].Argv, Observed: head(res[v.idx].Stdout, 1500), Expected: v.desc, Note: "configuration: the 21 core files of /repo/test/.ti-config"})
			} else {
				r.Report(s, "", nil)
			}
		}
	}
	x.validateAgainstReal(recs, 30)
	r.Bounds = map[string]any{"programs": len(progs), "literal_classes": len(lits), "configured_class_receivers": len(cnames), "forms": forms}
	r.Sample(map[string]any{"program": progs[0].src, "argv": cases[0].Argv, "features": progs[0].feat})
	r.Sample(map[string]any{"program": progs[len(progs)-1].src, "argv": cases[len(progs)-1].Argv, "features": progs[len(progs)-1].feat})
}
