package main

import (
	"encoding/json"
	"fmt"
	"regexp"
	"sort"
	"strings"

	"verif/internal/engine"
	"verif/internal/gen"
)

func init() { register("C13", c13) }

var rubyKeywords = map[string]bool{}

func init() {
	for _, k := range strings.Fields("alias and begin BEGIN break case class def defined? do else elsif end END ensure false for if in module next nil not or redo rescue retry return self super then true undef unless until when while yield __method__ __FILE__ __LINE__ " +
		"p puts print require require_relative raise attr_reader attr_writer attr_accessor private protected public include extend loop lambda proc new initialize dbtp dbp sleep block_given? it _1 _2 method_missing respond_to? send call each is_a? nil? class freeze catch throw") {
		rubyKeywords[k] = true
	}
}

// configuredNames collects every class, method and constant name of a configuration.
func configuredNames(cfg map[string]string) map[string]bool {
	out := map[string]bool{}
	wordRe := regexp.MustCompile(`[A-Za-z_][A-Za-z0-9_?!]*`)
	for _, content := range cfg {
		// every identifier-like word of every string value except documentation
		// (type strings such as "Hoge::Fuga" name classes too)
		var any interface{}
		if json.Unmarshal([]byte(content), &any) == nil {
			var walk func(v interface{})
			walk = func(v interface{}) {
				switch t := v.(type) {
				case map[string]interface{}:
					for k, vv := range t {
						if k == "document" {
							continue
						}
						walk(vv)
					}
				case []interface{}:
					for _, vv := range t {
						walk(vv)
					}
				case string:
					for _, w := range wordRe.FindAllString(t, -1) {
						out[w] = true
					}
				}
			}
			walk(any)
		}
		var c struct {
			Class           string `json:"class"`
			InstanceMethods []struct {
				Name string `json:"name"`
			} `json:"instance_methods"`
			ClassMethods []struct {
				Name string `json:"name"`
			} `json:"class_methods"`
			Constants []struct {
				Name string `json:"name"`
			} `json:"constants"`
			Extends []string `json:"extends"`
		}
		if json.Unmarshal([]byte(content), &c) != nil {
			continue
		}
		for _, part := range strings.Split(c.Class, "::") {
			out[part] = true
		}
		for _, e := range c.Extends {
			for _, part := range strings.Split(e, "::") {
				out[part] = true
			}
		}
		for _, m := range c.InstanceMethods {
			out[m.Name] = true
		}
		for _, m := range c.ClassMethods {
			out[m.Name] = true
		}
		for _, k := range c.Constants {
			out[k.Name] = true
		}
	}
	return out
}

var localRe = regexp.MustCompile(`^[a-z_][a-z0-9_]*$`)
var classRe = regexp.MustCompile(`^[A-Z][A-Za-z0-9]*[a-z][A-Za-z0-9]*$`)

type renameTarget struct {
	name string
	kind string // local | method | class
}

// renameTargets decides, conservatively, which identifiers of src can be renamed consistently by
// replacing every token equal to the name.
func renameTargets(src string, configured map[string]bool) []renameTarget {
	ts := gen.Tokenize(src)
	idx := gen.NonSpaceIdx(ts)
	type occ struct{ prev, next string }
	occs := map[string][]occ{}
	inText := map[string]bool{} // names occurring inside strings / comments / symbols
	for k, i := range idx {
		t := ts[i].Text
		prev, next := "", ""
		if k > 0 {
			prev = ts[idx[k-1]].Text
		}
		if k+1 < len(idx) {
			next = ts[idx[k+1]].Text
		}
		if strings.HasPrefix(t, "\"") || strings.HasPrefix(t, "'") || strings.HasPrefix(t, "#") {
			for _, w := range regexp.MustCompile(`[A-Za-z_][A-Za-z0-9_]*`).FindAllString(t, -1) {
				inText[w] = true
			}
			continue
		}
		// glued next: is the following token directly adjacent (no space)?
		glued := i+1 < len(ts) && !ts[i+1].Space
		if !glued {
			next = " " + next
		}
		gluedPrev := i > 0 && !ts[i-1].Space
		if !gluedPrev {
			prev = prev + " "
		}
		occs[t] = append(occs[t], occ{prev, next})
	}
	// anything unusual in the file: heredocs, %w, backticks, =begin -> refuse
	if strings.Contains(src, "<<~") || strings.Contains(src, "<<-") || regexp.MustCompile(`<<[A-Z]`).MatchString(src) ||
		strings.Contains(src, "%w") || strings.Contains(src, "%i") || strings.Contains(src, "=begin") || strings.Contains(src, "`") {
		return nil
	}
	// names in `def name(...)` / `def name a, b` parameter lists are locals
	paramNames := map[string]bool{}
	for _, m := range regexp.MustCompile(`(?m)^\s*def\s+(?:self\.)?[A-Za-z_][A-Za-z0-9_?!=]*\s*\(?([^)\n]*)\)?`).FindAllStringSubmatch(src, -1) {
		for _, w := range regexp.MustCompile(`[a-z_][a-z0-9_]*`).FindAllString(m[1], -1) {
			paramNames[w] = true
		}
	}
	var out []renameTarget
	var names []string
	for n := range occs {
		names = append(names, n)
	}
	sort.Strings(names)
	for _, n := range names {
		if rubyKeywords[n] || configured[n] || inText[n] {
			continue
		}
		os := occs[n]
		switch {
		case localRe.MatchString(n):
			isLocal, isMethod, bad := paramNames[n], false, false
			isSetter, bareUse := false, false
			for _, o := range os {
				switch {
				case strings.HasSuffix(o.prev, ":") && !strings.HasSuffix(o.prev, "::") && !strings.HasSuffix(o.prev, ": "): // :sym
					bad = true
				case o.next == ":" || strings.HasPrefix(o.next, ": "): // key:
					bad = true
				case strings.TrimSpace(o.prev) == "def":
					isMethod = true
				case strings.TrimSpace(o.prev) == "." || strings.TrimSpace(o.prev) == "&.":
					isMethod = true
				case strings.TrimSpace(o.prev) == "::":
					bad = true
				case strings.TrimSpace(o.prev) == "@" || strings.HasSuffix(o.prev, "@") || strings.HasSuffix(o.prev, "$"):
					bad = true
				case strings.TrimSpace(o.next) == "=" || strings.TrimSpace(o.next) == "+=" || strings.TrimSpace(o.next) == "-=" || strings.TrimSpace(o.prev) == "|" || strings.TrimSpace(o.next) == "|":
					isLocal = true
				}
				if strings.HasPrefix(o.next, "=") && !strings.HasPrefix(o.next, "==") && strings.TrimSpace(o.prev) == "def" {
					isSetter = true // def x=(v)
				}
				if tp := strings.TrimSpace(o.prev); tp != "def" && tp != "." && tp != "&." {
					bareUse = true
				}
			}
			if isSetter {
				// a setter (attribute) is renameable when the name is only ever defined or called with a receiver
				if bad || bareUse || paramNames[n] {
					continue
				}
				out = append(out, renameTarget{n, "method"})
				continue
			}
			if bad || (isLocal && isMethod) {
				continue
			}
			if isMethod {
				// a user method: must be defined in this file
				defined := false
				for _, o := range os {
					if strings.TrimSpace(o.prev) == "def" {
						defined = true
					}
				}
				// `def self.x`: prev is "." and the one before is self; accept when some occurrence follows "def self ."
				if !defined && !regexp.MustCompile(`def\s+self\.`+regexp.QuoteMeta(n)+`\b`).MatchString(src) {
					continue
				}
				out = append(out, renameTarget{n, "method"})
			} else if isLocal {
				out = append(out, renameTarget{n, "local"})
			}
		case classRe.MatchString(n):
			defined := false
			for _, o := range os {
				p := strings.TrimSpace(o.prev)
				if p == "class" || p == "module" {
					defined = true
				}
			}
			if defined {
				out = append(out, renameTarget{n, "class"})
			}
		}
	}
	return out
}

func renameTokens(src, from, to string) string {
	ts := gen.Tokenize(src)
	for i := range ts {
		if ts[i].Text == from {
			ts[i].Text = to
		}
	}
	return gen.Join(ts)
}

func identSub(s, from, to string) string {
	re := regexp.MustCompile(`(^|[^A-Za-z0-9_])` + regexp.QuoteMeta(from) + `($|[^A-Za-z0-9_])`)
	// apply twice for adjacent matches sharing a separator
	for i := 0; i < 2; i++ {
		s = re.ReplaceAllString(s, "${1}"+to+"${2}")
	}
	return s
}

func c13(x *ctx) {
	r := x.run
	thorough := x.tier == "thorough"
	r.Rule = "every identifier of every corpus and generated program that the harness's token-role analysis proves renameable (locals, user methods, user classes; never a keyword, configured name, symbol, key, or a name occurring inside a string/comment) " +
		"x fresh names of several lengths; the renamed program's output with the fresh name substituted back must equal the original output; non-trivial = original program prints records"
	r.Assumptions = []string{"token-role analysis is conservative: it refuses files with heredocs/%w/back-ticks and names with mixed roles",
		"fresh names occur neither in the program nor in the configuration"}
	shipped := gen.ShippedConfig(engine.RepoRoot)
	configured := configuredNames(shipped)
	freshLower := []string{"q", "a_long_name_1"}
	// class names that sort after and before every other name (ancestor lists must keep program order)
	freshUpper := []string{"Zq", "Aq", "LongClassName1"}
	if thorough {
		freshLower = []string{"q", "zz9", "a_long_name_1", "_u"}
		freshUpper = []string{"Zq", "Aq", "LongClassName1", "Q"}
	}
	progs := progSet(x)
	nTargets := map[string]int{}
	x.metamorphic(func(emit func(*mItem)) {
		for _, p := range progs {
			targets := renameTargets(p.Src, configured)
			if len(targets) == 0 {
				continue
			}
			argv := []string{p.Name, "-i"}
			base := &engine.Case{Files: map[string]string{p.Name: p.Src}, Argv: argv}
			for _, t := range targets {
				fresh := freshLower
				if t.kind == "class" {
					fresh = freshUpper
				}
				nTargets[t.kind]++
				for _, f := range fresh {
					if strings.Contains(p.Src, f) && regexp.MustCompile(`(^|[^A-Za-z0-9_])`+regexp.QuoteMeta(f)+`($|[^A-Za-z0-9_])`).MatchString(p.Src) {
						continue
					}
					t, f := t, f
					shape := "long"
					if len(f) == 1 {
						shape = "one-letter"
					} else if strings.HasPrefix(f, "_") {
						shape = "underscore"
					}
					emit(&mItem{baseKey: p.Name, base: base,
						variant: &engine.Case{Files: map[string]string{p.Name: renameTokens(p.Src, t.name, f)}, Argv: argv},
						norm:    func(o string) string { return identSub(o, f, t.name) },
						sig: func(b, v string) string {
							return fmt.Sprintf("rename-%s:%s:%s@%s:%s", t.kind, shape, diffClass(b, identSub(v, f, t.name)), p.Name, t.name)
						},
						desc: fmt.Sprintf("%s %q renamed to %q in %s", t.kind, t.name, f, p.Name)})
				}
			}
		}
	}, nil)
	r.Bounds = map[string]any{"programs": len(progs), "targets": nTargets, "fresh_lower": freshLower, "fresh_upper": freshUpper}
	r.Sample(map[string]any{"program": "./g_def_0.rb", "rename": "m1 -> a_long_name_1", "oracle": "output with a_long_name_1 replaced by m1 equals original output"})
	r.Sample(map[string]any{"program": "./g_class_0.rb", "rename": "K1 -> Zq"})
}
