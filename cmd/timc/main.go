// timc — bounded-exhaustive model checker driver for ruby-ti (see /verif/DESIGN.md).
package main

import (
	"flag"
	"fmt"
	"os"
	"runtime"
	"sort"
	"strings"

	"verif/internal/chk"
	"verif/internal/engine"
	"verif/internal/gen"
)

type checkFn func(x *ctx)

type ctx struct {
	run  *chk.Run
	bins *engine.Bins
	pool *engine.Pool
	tier string
	seed int64
}

var checks = map[string]checkFn{}
var extra = map[string]func([]string) int{}

func register(id string, f checkFn) { checks[id] = f }

func usage() {
	fmt.Fprintln(os.Stderr, "usage: timc check <ID> [--tier quick|thorough] | timc build | timc replay <path> | timc list")
	os.Exit(2)
}

func main() {
	if len(os.Args) < 2 {
		usage()
	}
	switch os.Args[1] {
	case "build":
		b, err := engine.Build()
		if err != nil {
			fmt.Println("HARNESS-ERROR", err)
			os.Exit(2)
		}
		fmt.Println("built", b.Dir)
	case "list":
		var ids []string
		for id := range checks {
			ids = append(ids, id)
		}
		sort.Strings(ids)
		fmt.Println(strings.Join(ids, " "))
	case "check":
		if len(os.Args) < 3 {
			usage()
		}
		id := os.Args[2]
		fs := flag.NewFlagSet("check", flag.ExitOnError)
		tier := fs.String("tier", envOr("VERIF_TIER", "quick"), "quick|thorough")
		workers := fs.Int("workers", 0, "worker processes (default: NumCPU)")
		fs.Parse(os.Args[3:])
		f, ok := checks[id]
		if !ok {
			fmt.Println("HARNESS-ERROR unknown check", id)
			os.Exit(2)
		}
		os.Exit(runCheck(id, *tier, *workers, f))
	case "replay":
		if len(os.Args) < 3 {
			usage()
		}
		os.Exit(replay(os.Args[2]))
	case "selftest":
		os.Exit(selftest(os.Args[2:]))
	default:
		if f, ok := extra[os.Args[1]]; ok {
			os.Exit(f(os.Args[2:]))
		}
		usage()
	}
}

func envOr(k, d string) string {
	if v := os.Getenv(k); v != "" {
		return v
	}
	return d
}

func runCheck(id, tier string, workers int, f checkFn) (code int) {
	if tier != "quick" && tier != "thorough" {
		tier = "quick"
	}
	bins, err := engine.Build()
	if err != nil {
		// a tree that does not build cannot be checked; this is a harness error, never a violation
		fmt.Println("HARNESS-ERROR", err)
		return 2
	}
	if workers <= 0 {
		workers = runtime.NumCPU()
	}
	pool := engine.NewPool(bins, workers)
	defer pool.Close()
	pool.NewCfgDir("core", gen.CoreConfig(engine.RepoRoot))
	r := chk.NewRun(id, tier)
	x := &ctx{run: r, bins: bins, pool: pool, tier: tier, seed: r.Seed}
	defer func() {
		if e := recover(); e != nil {
			pool.Close()
			fmt.Println("HARNESS-ERROR panic in check:", e)
			buf := make([]byte, 8192)
			n := runtime.Stack(buf, false)
			fmt.Println(string(buf[:n]))
			code = 2
		}
	}()
	f(x)
	r.Extra["engine"] = "inproc+real"
	r.Extra["worker_restarts"] = pool.Restarts
	r.Extra["tree"] = bins.TreeSum
	return r.Finish()
}
