package main

import (
	"fmt"
	"sort"
	"strings"
	"time"

	"verif/internal/engine"
	"verif/internal/gen"
)

func init() {
	register("C01", func(x *ctx) { crashHang(x, "C01") })
	register("C02", func(x *ctx) { crashHang(x, "C02") })
}

type inCase struct {
	fam  string
	src  string
	argv []string
}

// enumInputs is the shared input space of C01/C02 (DESIGN.md §5 C01).
func enumInputs(x *ctx, withCycles bool, emit func(fam, name, src string, flags []string)) map[string]any {
	thorough := x.tier == "thorough"
	bounds := map[string]any{}
	file := "t.rb"

	// (a) token strings
	lenT, lenHot := 2, 3
	if thorough {
		lenT, lenHot = 3, 4
	}
	bounds["sigma_t"] = len(gen.SigmaT)
	bounds["sigma_hot"] = len(gen.SigmaHot)
	bounds["len_sigma_t"] = lenT
	bounds["len_sigma_hot"] = lenHot
	// token strings are emitted LAST (see the end of this function), shortest first, so that an internal
	// time cap leaves every other family and a complete lower length bound covered
	var rec func(alpha []string, prefix string, depth, exact int, fam string)
	rec = func(alpha []string, prefix string, depth, exact int, fam string) {
		if depth == exact {
			emit(fam, file, prefix, []string{"-i"})
			if !strings.HasSuffix(prefix, "\n") {
				emit(fam, file, prefix+"\n", []string{"-i"})
			} else {
				emit(fam, file, strings.TrimRight(prefix, " \n"), []string{"-i"})
			}
			return
		}
		for _, t := range alpha {
			rec(alpha, prefix+t, depth+1, exact, fam)
		}
	}
	defer func() {
		for l := 1; l <= lenHot; l++ {
			if l <= lenT {
				rec(gen.SigmaT, "", 0, l, fmt.Sprintf("tokT-len%d", l))
			}
			rec(gen.SigmaHot, "", 0, l, fmt.Sprintf("tokHot-len%d", l))
		}
	}()

	// (b) corpus d=0 and prefixes
	corpus := gen.Corpus(engine.RepoRoot)
	bounds["corpus_programs"] = len(corpus)
	small := gen.SortBySize(corpus)
	nPrefixProgs := 150
	if thorough {
		nPrefixProgs = len(small)
	}
	bounds["prefix_programs"] = nPrefixProgs
	for _, p := range gen.OddLiteralPrograms() {
		emit("odd-literal", p.Name, p.Src, nil)
		emit("odd-literal", p.Name, p.Src, []string{"-i"})
		ts := gen.Tokenize(p.Src)
		for _, i := range gen.NonSpaceIdx(ts) {
			emit("odd-literal-prefix", p.Name, gen.Join(ts[:i+1]), []string{"-i"})
		}
	}
	// generated programs (the set the metamorphic checks use): whole, and every token prefix
	for _, p := range gen.Generated() {
		emit("generated", p.Name, p.Src, nil)
		emit("generated", p.Name, p.Src, []string{"-i"})
		ts := gen.Tokenize(p.Src)
		for _, i := range gen.NonSpaceIdx(ts) {
			emit("generated-prefix", p.Name, gen.Join(ts[:i+1]), []string{"-i"})
		}
	}
	for _, p := range corpus {
		emit("corpus", p.Name, p.Src, nil)
		emit("corpus", p.Name, p.Src, []string{"-i"})
		emit("corpus-nonl", p.Name, strings.TrimRight(p.Src, "\n"), []string{"-i"})
	}
	for pi, p := range small {
		if pi >= nPrefixProgs {
			break
		}
		ts := gen.Tokenize(p.Src)
		if thorough {
			// every rune prefix
			rs := []rune(p.Src)
			for i := 1; i < len(rs); i++ {
				emit("prefix-rune", p.Name, string(rs[:i]), []string{"-i"})
			}
		} else {
			idx := gen.NonSpaceIdx(ts)
			for _, i := range idx {
				emit("prefix-tok", p.Name, gen.Join(ts[:i+1]), []string{"-i"})
			}
		}
	}

	// (b2) sources that are not valid UTF-8: every byte prefix of a corpus program that cuts a multi-byte
	// character, and ill-formed byte sequences at the start, end and middle of small hosts
	nCut := 0
	for _, p := range corpus {
		b := []byte(p.Src)
		for i := 1; i < len(b); i++ {
			if b[i] >= 0x80 && b[i] < 0xC0 { // continuation byte: the prefix b[:i] ends inside a character
				emit("prefix-byte-midchar", p.Name, string(b[:i]), []string{"-i"})
				emit("prefix-byte-midchar", p.Name, string(b[:i])+"\n", nil)
				nCut++
			}
		}
	}
	bounds["mid_character_cuts"] = nCut
	tails := []string{"\xE9", "\xE3\x81", "\xE3", "\xFF", "\xC3", "\xF0\x9F\x98", "\x80", "\xFF\xFE", "\xED\xA0\x80"}
	hosts := []string{"x = 1", "# c", "s = \"a", "s = 'a'", "def m\nend", ":a", "a.b", "1.5", "x = [1]", "@v", "%w[a", "x = <<~E\nabc", "p(1)", "class K\nend"}
	for _, h := range hosts {
		for _, t := range tails {
			for _, src := range []string{h + t, h + t + "\n", t + h + "\n", h + "\n" + t + "\n" + h + "\n", "# " + t + "\n" + h + "\n", "\"" + t + "\"\n" + h, h + " " + t} {
				emit("ill-formed-bytes", file, src, []string{"-i"})
			}
		}
	}
	bounds["ill_formed_byte_programs"] = len(hosts) * len(tails) * 7

	// (c) corpus single deviations
	nDevProgs := 60
	if thorough {
		nDevProgs = 300
	}
	bounds["deviation_programs"] = nDevProgs
	for pi, p := range small {
		if pi >= nDevProgs {
			break
		}
		ts := gen.Tokenize(p.Src)
		idx := gen.NonSpaceIdx(ts)
		for k, i := range idx {
			// delete token i
			d := append(append([]gen.Tok{}, ts[:i]...), ts[i+1:]...)
			emit("dev-del", p.Name, gen.Join(d), []string{"-i"})
			// swap with next non-space token
			if k+1 < len(idx) {
				j := idx[k+1]
				s := append([]gen.Tok{}, ts...)
				s[i], s[j] = s[j], s[i]
				emit("dev-swap", p.Name, gen.Join(s), []string{"-i"})
			}
			if thorough && pi < 80 {
				for _, h := range gen.SigmaHot {
					r := append([]gen.Tok{}, ts...)
					r[i] = gen.Tok{Text: h}
					emit("dev-repl", p.Name, gen.Join(r), []string{"-i"})
					ins := append(append(append([]gen.Tok{}, ts[:i]...), gen.Tok{Text: h}), ts[i:]...)
					emit("dev-ins", p.Name, gen.Join(ins), []string{"-i"})
				}
			}
		}
	}

	// (d) inheritance graphs on 3 class names, <= 3 edges, incl. self loops and cycles
	if withCycles {
		names := []string{"A", "B", "C"}
		type edge struct{ a, b string }
		var edges []edge
		for _, a := range names {
			for _, b := range names {
				edges = append(edges, edge{a, b})
			}
		}
		uses := []string{"A.new.foo\n", "A.foo\n", "x = A.new\nx.foo\n", "class A\n  def m\n    @v\n  end\nend\nA.new.m\n", "A.new\n"}
		var pick func(start int, chosen []edge)
		pick = func(start int, chosen []edge) {
			if len(chosen) > 0 {
				var sb strings.Builder
				for _, e := range chosen {
					fmt.Fprintf(&sb, "class %s < %s\nend\n", e.a, e.b)
				}
				for _, u := range uses {
					emit("inherit", file, sb.String()+u, nil)
				}
			}
			if len(chosen) == 3 {
				return
			}
			for i := start; i < len(edges); i++ {
				pick(i+1, append(append([]edge{}, chosen...), edges[i]))
			}
		}
		pick(0, nil)
		bounds["inheritance_graphs"] = "all edge sets of size<=3 over {A,B,C}^2 x 5 uses"

		// mixed graphs: classes A,B and modules M,N with superclass, include and extend edges; every
		// entity has a method reading and writing an instance variable (lookups walk the edges)
		type medge struct{ src, kind, dst string }
		ents := []string{"A", "B", "M", "N"}
		isClass := map[string]bool{"A": true, "B": true}
		var medges []medge
		for _, s := range ents {
			for _, d := range ents {
				if isClass[s] && isClass[d] {
					medges = append(medges, medge{s, "<", d})
				}
				if !isClass[d] || !isClass[s] {
					medges = append(medges, medge{s, "include", d})
				}
				if !isClass[d] {
					medges = append(medges, medge{s, "extend", d})
				}
			}
		}
		muses := []string{"A.new.ma\n", "A.ma\n", "x = A.new\nx.foo\nx.mm\n"}
		maxE := 2
		if thorough {
			maxE = 3
		}
		var mpick func(start int, chosen []medge)
		mpick = func(start int, chosen []medge) {
			if len(chosen) > 0 {
				var sb strings.Builder
				used := map[string]bool{"A": true}
				for _, e := range chosen {
					used[e.src], used[e.dst] = true, true
				}
				for _, en := range ents {
					if !used[en] {
						continue
					}
					kw := "module"
					if isClass[en] {
						kw = "class"
					}
					head := kw + " " + en
					for _, e := range chosen {
						if e.src == en && e.kind == "<" {
							head += " < " + e.dst
							break
						}
					}
					sb.WriteString(head + "\n")
					for _, e := range chosen {
						if e.src == en && e.kind != "<" {
							fmt.Fprintf(&sb, "  %s %s\n", e.kind, e.dst)
						}
					}
					l := strings.ToLower(en)
					fmt.Fprintf(&sb, "  def m%s\n    @v%s = 1\n    @w\n  end\nend\n", l, l)
				}
				for _, u := range muses {
					emit("inherit-mixin", file, sb.String()+u, nil)
				}
			}
			if len(chosen) == maxE {
				return
			}
			for i := start; i < len(medges); i++ {
				mpick(i+1, append(append([]medge{}, chosen...), medges[i]))
			}
		}
		mpick(0, nil)
		bounds["mixin_graphs"] = fmt.Sprintf("all edge sets of size<=%d over %d superclass/include/extend edges on classes A,B and modules M,N x %d uses", maxE, len(medges), len(muses))
	}
	return bounds
}

func crashHang(x *ctx, prop string) {
	r := x.run
	r.Rule = "every token string over the token alphabets up to the stated lengths (with and without final newline), " +
		"every corpus program, its prefixes and single-token deviations" +
		", every inheritance graph with <=3 superclass edges on 3 classes and every graph with <=2 (thorough: 3) superclass/include/extend edges on 2 classes and 2 modules" +
		"; each executed in process on the real analysis code; non-trivial = produced at least one output record"
	r.Assumptions = []string{
		"in-process engine is observationally equal to the unmodified binary (validated on a seed-rotated slice and on every candidate)",
		"a spin that never asks for a rune or token is caught only by the 30 s driver deadline",
	}
	type cand struct {
		c   *engine.Case
		res *engine.Result
		fam string
	}
	bySig := map[string][]cand{}
	var recs []execRec
	famCount := map[string]int{}
	sitesSeen := map[string]int{}
	var bounds map[string]any
	cappedAt := ""
	x.stream(func(emit func(*engine.Case)) {
		// internal time cap: stop generating (never a failure), report the families completed below it
		capAfter := 8 * time.Minute
		if x.tier == "thorough" {
			capAfter = 50 * time.Minute
		}
		deadline := time.Now().Add(capAfter)
		bounds = enumInputs(x, true, func(fam, name, src string, flags []string) {
			if cappedAt != "" {
				return
			}
			if time.Now().After(deadline) {
				cappedAt = fam
				return
			}
			emit(&engine.Case{Files: map[string]string{name: src}, Argv: append([]string{name}, flags...), Tag: fam})
		})
	}, func(c *engine.Case, res *engine.Result) {
		r.Evaluations++
		r.Transitions++
		fam := c.Tag.(string)
		famCount[fam]++
		if res.Stdout != "" {
			r.Nontrivial++
		}
		name := c.Argv[0]
		sig := ""
		switch {
		case res.Died:
			sig = "died:" + res.DiedKind
			if res.DiedKind == "stack-overflow" {
				sig = "hang:stack-overflow"
			}
		case res.Deadline:
			sig = "hang:deadline"
		case res.Hang:
			sig = "hang:" + res.HangSite
		case res.CrashSite != "":
			sig = "crash:" + res.CrashSite + ":" + panicClass(res.CrashValue)
		case res.Exit != 0:
			sig = fmt.Sprintf("exit:%d", res.Exit)
		default:
			if prop == "C01" {
				if bl := badLine(res.Stdout, name, false); bl != "" {
					sig = "badline:" + lineShape(bl)
				}
			}
		}
		r.Outcome(sig + "|" + outcomeShape(res.Stdout, name))
		if sig == "" {
			if len(recs) < 200000 {
				recs = append(recs, execRec{"default", c.Files, c.Argv, res.Stdout})
			}
			return
		}
		isHang := strings.HasPrefix(sig, "hang:")
		// C01 demands exit status 0 and only diagnostic lines: a hang (`timeout`, exit 1) violates it too.
		// C02 is only about termination.
		if prop == "C02" && !isHang {
			sitesSeen["other-property:"+sig]++
			return
		}
		sitesSeen[sig]++
		if len(bySig[sig]) < 3 || len(c.Files[name]) < len(bySig[sig][0].c.Files[name]) {
			bySig[sig] = append(bySig[sig], cand{c, res, fam})
			sort.SliceStable(bySig[sig], func(i, j int) bool {
				a, b := bySig[sig][i].c, bySig[sig][j].c
				return len(a.Files[a.Argv[0]]) < len(b.Files[b.Argv[0]])
			})
			if len(bySig[sig]) > 3 {
				bySig[sig] = bySig[sig][:3]
			}
		}
	})
	r.Bounds = bounds
	if cappedAt != "" {
		r.CapsHit = append(r.CapsHit, "time cap reached while generating family "+cappedAt+"; all earlier families (see `families`) are complete")
	}
	r.States = r.Evaluations
	r.Extra["families"] = famCount
	r.Extra["abnormal_signatures"] = sitesSeen

	// confirm each signature's smallest candidates on the unmodified binary, serially (pool is idle now)
	var sigs []string
	for s := range bySig {
		sigs = append(sigs, s)
	}
	sort.Strings(sigs)
	for _, sig := range sigs {
		confirmed := false
		var first cand
		for i, cd := range bySig[sig] {
			if i == 0 {
				first = cd
			}
			name := cd.c.Argv[0]
			var ok bool
			var rr *engine.RealResult
			if strings.HasPrefix(sig, "hang:") {
				ok = x.realHung("default", cd.c.Files, cd.c.Argv)
				rr = &engine.RealResult{Stdout: "timeout\n"}
			} else {
				rr = x.realStable("default", cd.c.Files, cd.c.Argv)
				if strings.HasPrefix(sig, "badline:") {
					ok = badLine(rr.Stdout, name, false) != ""
				} else {
					ok = realCrashed(rr)
				}
			}
			if ok {
				r.Validated++
				confirmed = true
				n := sitesSeen[sig]
				for k := 0; k < n; k++ {
					if k == 0 {
						r.Report(sig, fmt.Sprintf("%s (%d cases; family %s); smallest input %q", sig, n, cd.fam, head(cd.c.Files[name], 120)),
							ReplayDoc{Cfg: "default", Files: cd.c.Files, Argv: cd.c.Argv, Observed: head(rr.Stdout+rr.Stderr, 1500),
								Expected: "exit status 0, analysis result printed, no Go panic, no `timeout`"})
					} else {
						r.Report(sig, "", nil)
					}
				}
				break
			}
		}
		if !confirmed {
			name := first.c.Argv[0]
			r.Unconfirmed = append(r.Unconfirmed, fmt.Sprintf("%s input=%q", sig, head(first.c.Files[name], 80)))
		}
	}
	x.validateAgainstReal(recs, 120)
	r.Sample(map[string]any{"family": "tokT", "input": "def x \n", "argv": []string{"t.rb", "-i"}})
	if len(recs) > 0 {
		k := int(x.seed%int64(len(recs))+int64(len(recs))) % len(recs)
		r.Sample(map[string]any{"argv": recs[k].argv, "input": head(recs[k].files[recs[k].argv[0]], 300), "stdout": head(recs[k].out, 300)})
		r.Sample(map[string]any{"argv": recs[len(recs)-1].argv, "input": head(recs[len(recs)-1].files[recs[len(recs)-1].argv[0]], 300), "stdout": head(recs[len(recs)-1].out, 300)})
	}
}

func lineShape(l string) string {
	l = panicClassRe.ReplaceAllString(l, "N")
	return head(l, 30)
}

// outcomeShape abstracts an output into the multiset of message shapes (for distinct-outcome counting).
func outcomeShape(out, file string) string {
	if out == "" {
		return ""
	}
	var shapes []string
	for _, l := range strings.Split(strings.TrimSuffix(out, "\n"), "\n") {
		parts := strings.SplitN(l, ":::", 3)
		if len(parts) == 3 {
			shapes = append(shapes, head(parts[2], 24))
		} else {
			shapes = append(shapes, head(l, 24))
		}
	}
	sort.Strings(shapes)
	return strings.Join(shapes, "|")
}
