package main

import (
	"fmt"
	"strings"

	"verif/internal/engine"
)

func init() { register("C27", c27) }

type c27group struct {
	name  string
	body  string   // class definitions, unqualified
	uses  []string // usage lines with %Q% where the qualification prefix goes
	decoy string   // same-named class with different methods / parent
}

var c27groups = []c27group{
	{"single", "class Alpha\n  def val\n    1\n  end\n\n  def self.make\n    Alpha.new\n  end\nend\n",
		[]string{"a = %Q%Alpha.new", "dbtp a.val", "dbtp %Q%Alpha.make", "a.nope", "%Q%Alpha.nope2"},
		"class Alpha\n  def val\n    \"s\"\n  end\n\n  def extra\n    1.5\n  end\nend\n"},
	{"inherit", "class Alpha\n  def val\n    1\n  end\nend\nclass Beta < Alpha\n  def other\n    val\n  end\nend\n",
		[]string{"b = %Q%Beta.new", "dbtp b.val", "dbtp b.other", "b.nope", "x = %Q%Alpha.new", "x.other"},
		"class Alpha\n  def val\n    \"s\"\n  end\n\n  def other\n    :sym\n  end\nend\n"},
	{"mixin", "module Helper\n  def help\n    1.5\n  end\nend\nclass Alpha\n  include Helper\n  def val\n    help\n  end\nend\n",
		[]string{"a = %Q%Alpha.new", "dbtp a.val", "dbtp a.help", "a.nope"},
		"module Helper\n  def help\n    \"s\"\n  end\n\n  def nope\n    1\n  end\nend\n"},
	{"private", "class Alpha\n  def pub\n    priv\n  end\n\n  private\n\n  def priv\n    1\n  end\nend\nclass Beta < Alpha\n  def go\n    priv\n  end\nend\n",
		[]string{"b = %Q%Beta.new", "dbtp b.pub", "dbtp b.go", "b.priv"},
		"class Alpha\n  def priv\n    \"s\"\n  end\nend\n"},
	{"initialize", "class Alpha\n  def initialize(v, w)\n    @v = v\n    @w = w\n  end\n\n  def v\n    @v\n  end\nend\n",
		[]string{"a = %Q%Alpha.new(1, \"s\")", "dbtp a.v", "%Q%Alpha.new(1)", "%Q%Alpha.new"},
		"class Alpha\n  def initialize\n  end\n\n  def v\n    :sym\n  end\nend\n"},
	{"nested-class-parent-outside", "class Sizer\n  def size\n    1\n  end\nend\nmodule Tagged\n  def tag\n    :sym\n  end\nend\nclass Outer\n  class Inner < Sizer\n    include Tagged\n    def val\n      size\n    end\n  end\nend\n",
		[]string{"i = %Q%Outer::Inner.new", "dbtp i.val", "dbtp i.size", "dbtp i.tag", "i.nope"},
		"class Sizer\n  def size\n    \"s\"\n  end\nend\nmodule Tagged\n  def tag\n    [1]\n  end\nend\n"},
	// methods that instances inherit from the configured Object class, inside and outside the group's own methods
	{"object-methods", "class Alpha\n  def val\n    1\n  end\n\n  def show\n    to_s\n  end\nend\nclass Beta < Alpha\nend\n",
		[]string{"a = %Q%Alpha.new", "b = %Q%Beta.new", "dbtp a.to_s", "dbtp a.inspect", "dbtp a.nil?", "dbtp a == b", "dbtp b.is_a?(%Q%Alpha)", "dbtp b.to_s", "dbtp a.show", "dbtp b.frozen?", "a.nope"},
		"class Alpha\n  def to_s\n    1\n  end\n\n  def inspect\n    :sym\n  end\nend\n"},
	// an attribute declared in the grandparent, read through a subclass that is defined outside the namespace
	{"attr-through-outside-subclass", "class Alpha\n  attr_reader :label\n  attr_accessor :count\n\n  def initialize(v)\n    @label = \"s\"\n    @count = v\n  end\nend\nclass Beta < Alpha\nend\n",
		[]string{"class Leafq < %Q%Beta; end", "lf = Leafq.new(1)", "dbtp lf.label", "dbtp lf.count", "lf.label + 1", "lf.nope", "b = %Q%Beta.new(2)", "dbtp b.label"},
		"class Origin\n  attr_reader :label\n\n  def initialize(v)\n    @label = 1\n  end\nend\nclass Beta < Origin\nend\n"},
	// receiver-less and class-method calls with parameters; the decoy has same-named methods and parameters with
	// other defaults and argument types
	{"parameter-slots", "class Alpha\n  def tag(v)\n    v\n  end\n\n  def use\n    tag(\"s\")\n  end\n\n  def self.count(v)\n    v\n  end\nend\n",
		[]string{"a = %Q%Alpha.new", "dbtp a.use", "dbtp %Q%Alpha.count(\"s\")", "dbtp a.tag(\"t\")", "a.tag", "%Q%Alpha.count"},
		"class Alpha\n  def tag(v = 1)\n    v\n  end\n\n  def use\n    tag\n  end\n\n  def self.count(v = 1)\n    v\n  end\nend\n"},
	{"classmethod-chain", "class Alpha\n  def self.build\n    Beta.new\n  end\nend\nclass Beta\n  def run\n    \"s\"\n  end\nend\n",
		[]string{"r = %Q%Alpha.build", "dbtp r.run", "r.nope", "%Q%Beta.build"},
		"class Beta\n  def run\n    1\n  end\n\n  def self.build\n    1\n  end\nend\n"},
}

func indentBlock(s string, n int) string {
	pad := strings.Repeat("  ", n)
	var out []string
	for _, l := range strings.Split(strings.TrimSuffix(s, "\n"), "\n") {
		if l == "" {
			out = append(out, "")
		} else {
			out = append(out, pad+l)
		}
	}
	return strings.Join(out, "\n") + "\n"
}

// mapRows rewrites rows of `file` records through f; records for which f returns 0 are dropped.
func mapRows(out, file string, f func(row int) int) string {
	if out == "" {
		return ""
	}
	var keep []string
	for _, l := range strings.Split(strings.TrimSuffix(out, "\n"), "\n") {
		pfx, rest := "", l
		if strings.HasPrefix(rest, "@") {
			pfx, rest = "@", rest[1:]
		}
		if !strings.HasPrefix(rest, file+":::") {
			keep = append(keep, l)
			continue
		}
		rest2 := rest[len(file)+3:]
		j := strings.Index(rest2, ":::")
		row, ok := 0, j > 0
		if ok {
			for _, c := range rest2[:j] {
				if c < '0' || c > '9' {
					ok = false
					break
				}
				row = row*10 + int(c-'0')
			}
		}
		if !ok {
			keep = append(keep, l)
			continue
		}
		nr := f(row)
		if nr == 0 {
			continue
		}
		keep = append(keep, fmt.Sprintf("%s%s:::%d%s", pfx, file, nr, rest2[j:]))
	}
	if len(keep) == 0 {
		return ""
	}
	return strings.Join(keep, "\n") + "\n"
}

func c27(x *ctx) {
	r := x.run
	thorough := x.tier == "thorough"
	r.Rule = "class groups (single class, inheritance, mixin, private section, initialize arity, class-method chain) analysed at top level (reference) and: wrapped in one module, in two nested modules (both `module M; module N` and `module M::N` where accepted), " +
		"each with outside references qualified; and alongside a same-named decoy class with different methods/parents placed before or after the group, at top level or in another module; " +
		"records of the group and of its uses must equal the reference after removing the qualification prefix and mapping rows; non-trivial = reference prints records"
	file := "t.rb"
	type wrapper struct {
		name   string
		open   []string
		prefix string
	}
	wrappers := []wrapper{
		{"one-module", []string{"module Mwrap"}, "Mwrap::"},
		{"two-modules", []string{"module Mwrap", "module Nwrap"}, "Mwrap::Nwrap::"},
	}
	decoys := []string{"none", "top-before", "top-after", "other-module-before", "other-module-after"}
	if !thorough {
		decoys = []string{"none", "top-before", "other-module-after"}
	}
	n := 0
	x.metamorphic(func(emit func(*mItem)) {
		for _, g := range c27groups {
			gl := strings.Count(g.body, "\n")
			var refUses []string
			for _, u := range g.uses {
				refUses = append(refUses, strings.ReplaceAll(u, "%Q%", ""))
			}
			refSrc := g.body + strings.Join(refUses, "\n") + "\n"
			base := &engine.Case{Files: map[string]string{file: refSrc}, Argv: []string{file, "-i"}}
			type variant struct {
				name   string
				src    string
				g0, u0 int // 1-based first row of group body / uses in the variant
				prefix string
			}
			var vs []variant
			build := func(w *wrapper, decoy string) variant {
				var sb strings.Builder
				row := 1
				add := func(s string) {
					sb.WriteString(s)
					row += strings.Count(s, "\n")
				}
				decoyBlock := g.decoy
				if strings.HasPrefix(decoy, "other-module") {
					decoyBlock = "module Xother\n" + indentBlock(g.decoy, 1) + "end\n"
				}
				if strings.HasSuffix(decoy, "before") {
					add(decoyBlock)
				}
				prefix := ""
				g0 := 0
				if w != nil {
					for i, o := range w.open {
						add(strings.Repeat("  ", i) + o + "\n")
					}
					g0 = row
					add(indentBlock(g.body, len(w.open)))
					for i := len(w.open) - 1; i >= 0; i-- {
						add(strings.Repeat("  ", i) + "end\n")
					}
					prefix = w.prefix
				} else {
					g0 = row
					add(g.body)
				}
				if strings.HasSuffix(decoy, "after") {
					add(decoyBlock)
				}
				u0 := row
				var us []string
				for _, u := range g.uses {
					us = append(us, strings.ReplaceAll(u, "%Q%", prefix))
				}
				add(strings.Join(us, "\n") + "\n")
				wn := "toplevel"
				if w != nil {
					wn = w.name
				}
				return variant{wn + "+decoy-" + decoy, sb.String(), g0, u0, prefix}
			}
			for _, d := range decoys {
				// at top level only a decoy in another module is a different class (a same-named
				// top-level class would be a reopening of the group's own class)
				if strings.HasPrefix(d, "other-module") {
					vs = append(vs, build(nil, d))
				}
				for i := range wrappers {
					// a top-level decoy next to a wrapped group, and an other-module decoy next to anything
					vs = append(vs, build(&wrappers[i], d))
				}
			}
			for _, v := range vs {
				v := v
				n++
				norm := func(o string) string {
					o = strings.ReplaceAll(o, v.prefix, "")
					if v.prefix != "" {
						// messages may also render the frame without trailing ::
						o = strings.ReplaceAll(o, strings.TrimSuffix(v.prefix, "::")+"::", "")
					}
					return mapRows(o, file, func(row int) int {
						switch {
						case row >= v.g0 && row < v.g0+gl:
							return row - v.g0 + 1
						case row >= v.u0:
							return row - v.u0 + gl + 1
						}
						return 0
					})
				}
				gname := g.name
				emit(&mItem{baseKey: g.name, base: base,
					variant: &engine.Case{Files: map[string]string{file: v.src}, Argv: []string{file, "-i"}},
					norm:    norm,
					sig:     func(b, vo string) string { return fmt.Sprintf("namespace:%s:%s:%s", gname, v.name, diffClass(b, norm(vo))) },
					desc:    fmt.Sprintf("group %q as %s", gname, v.name)})
			}
		}
	}, nil)
	r.Bounds = map[string]any{"groups": len(c27groups), "variants": n, "wrappers": []string{"module Mwrap", "module Mwrap / module Nwrap"}, "decoys": decoys}
	r.Sample(map[string]any{"group": c27groups[1].body, "uses": c27groups[1].uses, "variant": "module Mwrap … end with uses qualified Mwrap::Beta"})
}
