package main

import (
	"fmt"
	"sort"
	"strings"

	"verif/internal/engine"
)

// A metamorphic item: run `base` and `variant`; variant's output must equal expect(baseOutput).
type mItem struct {
	baseKey string // items with the same key share one base execution
	base    *engine.Case
	variant *engine.Case
	// expect maps the base output to the expected variant output; norm canonicalises an actual output
	// (both default to identity)
	expect func(baseOut string) string
	norm   func(out string) string
	sig    func(baseOut, varOut string) string // violation signature (feature class), called on mismatch
	desc   string
}

type mOpts struct {
	cfgFiles      map[string]map[string]string // inline configurations by cfg name (for replay files)
	skipAbnormal  bool                         // ignore pairs where either side crashed/hung (C01/C02 territory)
	nontrivial    func(baseOut string) bool
	validateSlice int
}

func outOf(res *engine.Result) string {
	if res.Died {
		return "<<worker died: " + res.DiedKind + ">>"
	}
	if res.Deadline {
		return "<<deadline>>"
	}
	if res.Hang {
		return "<<hang at " + res.HangSite + ">>"
	}
	if res.CrashSite != "" {
		return "<<crash at " + res.CrashSite + ">>"
	}
	return res.Stdout
}

func (x *ctx) replayOf(c *engine.Case, observed string, opts *mOpts) *ReplayDoc {
	d := &ReplayDoc{Cfg: c.Cfg, Files: c.Files, Argv: c.Argv, Observed: head(observed, 3000)}
	if d.Cfg == "" {
		d.Cfg = "default"
	}
	if opts != nil && opts.cfgFiles != nil {
		if cf, ok := opts.cfgFiles[c.Cfg]; ok {
			d.Cfg = "inline"
			d.CfgFiles = cf
		}
	}
	return d
}

// metamorphic executes all items and reports confirmed mismatches.
func (x *ctx) metamorphic(gen func(emit func(*mItem)), opts *mOpts) {
	r := x.run
	if opts == nil {
		opts = &mOpts{}
	}
	var items []*mItem
	baseIdx := map[string]int{}
	var baseCases []*engine.Case
	gen(func(it *mItem) {
		if _, ok := baseIdx[it.baseKey]; !ok {
			baseIdx[it.baseKey] = len(baseCases)
			baseCases = append(baseCases, it.base)
		}
		items = append(items, it)
	})
	baseRes := x.pool.RunAll(baseCases)
	var recs []execRec
	for i, br := range baseRes {
		r.Evaluations++
		out := outOf(br)
		r.Outcome(out)
		nt := out != ""
		if opts.nontrivial != nil {
			nt = opts.nontrivial(out)
		}
		if nt {
			r.Nontrivial++
		}
		if !br.Abnormal() {
			recs = append(recs, execRec{baseCases[i].Cfg, baseCases[i].Files, baseCases[i].Argv, br.Stdout})
		}
	}
	r.States += int64(len(baseCases))
	varCases := make([]*engine.Case, len(items))
	for i, it := range items {
		varCases[i] = it.variant
	}
	varRes := x.pool.RunAll(varCases)
	type cand struct {
		it        *mItem
		bout, vout string
	}
	var cands []cand
	abnormalSkipped := 0
	for i, it := range items {
		r.Evaluations++
		r.Transitions++
		r.States++
		br := baseRes[baseIdx[it.baseKey]]
		vr := varRes[i]
		if br.Abnormal() || vr.Abnormal() {
			if opts.skipAbnormal || (br.Abnormal() && vr.Abnormal()) {
				abnormalSkipped++
				continue
			}
		}
		bout, vout := outOf(br), outOf(vr)
		exp := bout
		if it.expect != nil {
			exp = it.expect(bout)
		}
		got := vout
		if it.norm != nil {
			got = it.norm(vout)
		}
		if exp != got {
			cands = append(cands, cand{it, bout, vout})
		}
	}
	r.Extra["abnormal_pairs_skipped"] = abnormalSkipped
	r.Extra["candidates_inproc"] = len(cands)
	// confirm on the unmodified binary (serially; the pool is idle). Confirm at most 12 per signature,
	// the rest of a confirmed signature is counted with it.
	bySig := map[string][]cand{}
	for _, c := range cands {
		s := "mismatch"
		if c.it.sig != nil {
			s = c.it.sig(c.bout, c.vout)
		}
		bySig[s] = append(bySig[s], c)
	}
	var sigs []string
	for s := range bySig {
		sigs = append(sigs, s)
	}
	sort.Strings(sigs)
	confirmBudget := 60
	for _, s := range sigs {
		cs := bySig[s]
		if confirmBudget <= 0 {
			r.Unconfirmed = append(r.Unconfirmed, fmt.Sprintf("%s (%d in-process candidates; confirmation budget exhausted)", s, len(cs)))
			continue
		}
		confirmBudget--
		sort.SliceStable(cs, func(i, j int) bool {
			return caseSize(cs[i].it.variant) < caseSize(cs[j].it.variant)
		})
		confirmed := 0
		var firstDoc *ReplayDoc
		var firstDesc string
		for i, c := range cs {
			if i >= 4 {
				break
			}
			ra := x.realStable(cfgName(c.it.base), c.it.base.Files, c.it.base.Argv)
			rb := x.realStable(cfgName(c.it.variant), c.it.variant.Files, c.it.variant.Argv)
			exp := ra.Stdout
			if c.it.expect != nil {
				exp = c.it.expect(ra.Stdout)
			}
			got := rb.Stdout
			if c.it.norm != nil {
				got = c.it.norm(rb.Stdout)
			}
			// a watchdog `timeout` that survived the retries is load noise here (hangs are C02's business):
			// never confirm a metamorphic difference with it
			if strings.TrimSpace(ra.Stdout) == "timeout" || strings.TrimSpace(rb.Stdout) == "timeout" {
				continue
			}
			if exp != got {
				confirmed++
				r.Validated++
				if firstDoc == nil {
					firstDoc = x.replayOf(c.it.variant, rb.Stdout, opts)
					firstDoc.Expected = head(exp, 3000)
					firstDoc.Other = x.replayOf(c.it.base, ra.Stdout, opts)
					firstDoc.Note = c.it.desc
					firstDesc = c.it.desc
				}
			}
		}
		if confirmed == 0 {
			r.Unconfirmed = append(r.Unconfirmed, fmt.Sprintf("%s (%d in-process candidates, none reproduced on the real binary) %s", s, len(cs), cs[0].it.desc))
			continue
		}
		for i := range cs {
			if i == 0 {
				r.Report(s, fmt.Sprintf("%s (%d cases) %s", s, len(cs), firstDesc), firstDoc)
			} else {
				r.Report(s, "", nil)
			}
		}
	}
	vs := opts.validateSlice
	if vs == 0 {
		vs = 40
	}
	x.validateAgainstReal(recs, vs)
}

func cfgName(c *engine.Case) string {
	if c.Cfg == "" {
		return "default"
	}
	return c.Cfg
}

func caseSize(c *engine.Case) int {
	n := 0
	for _, v := range c.Files {
		n += len(v)
	}
	return n
}

// shiftRows rewrites every `<file>:::<row>:::` / `@<file>:::<row>:::` record of out whose row is > after
// by delta. Rows at or before `after` are unchanged.
func shiftRows(out, file string, after, delta int) string {
	if out == "" || delta == 0 {
		return out
	}
	lines := strings.Split(out, "\n")
	for i, l := range lines {
		lines[i] = shiftLine(l, file, after, delta)
	}
	return strings.Join(lines, "\n")
}

func shiftLine(l, file string, after, delta int) string {
	pfx := ""
	rest := l
	if strings.HasPrefix(rest, "@") {
		pfx = "@"
		rest = rest[1:]
	}
	if !strings.HasPrefix(rest, file+":::") {
		return l
	}
	rest2 := rest[len(file)+3:]
	j := strings.Index(rest2, ":::")
	if j <= 0 {
		return l
	}
	row := 0
	for _, c := range rest2[:j] {
		if c < '0' || c > '9' {
			return l
		}
		row = row*10 + int(c-'0')
	}
	if row > after {
		row += delta
	}
	return fmt.Sprintf("%s%s:::%d%s", pfx, file, row, rest2[j:])
}
