package main

import (
	"fmt"
	"os"
	"sort"
	"strings"

	"verif/internal/engine"
)

func init() { register("C24", c24) }

type c24site struct {
	ctx, encl string
}

func c24(x *ctx) {
	r := x.run
	thorough := x.tier == "thorough"
	r.Rule = "programs with a target method `helper`, every multiset of 1-2 (thorough: 3) call sites drawn from {statement, assignment rhs, if/elsif/unless/while condition, argument of another call, inside a block, inside a loop body} x enclosing {top level, top-level method, instance method of a class, class method}; " +
		"`--llm-nav --target=helper` must list exactly one caller entry per call site with its row and enclosing method/class and `total callers` = number of sites; `--llm-nav --target=<caller>` must list only callees that are written in that method's body, one per written call. non-trivial = all"
	ctxs := []string{"stmt", "assign", "if-cond", "elsif-cond", "unless-cond", "while-cond", "argument", "block", "loop-body", "nested-arg", "array-pair", "if-in-if-cond", "unless-in-unless-cond"}
	encls := []string{"toplevel", "topmethod", "instmethod", "classmethod"}
	var kinds []c24site
	for _, c := range ctxs {
		for _, e := range encls {
			kinds = append(kinds, c24site{c, e})
		}
	}
	maxSites := 2
	if thorough {
		maxSites = 3
	}
	var combos [][]int
	var rec func(start int, cur []int)
	rec = func(start int, cur []int) {
		if len(cur) > 0 {
			combos = append(combos, append([]int{}, cur...))
		}
		if len(cur) == maxSites {
			return
		}
		for i := start; i < len(kinds); i++ {
			rec(i, append(cur, i)) // multisets
		}
	}
	rec(0, nil)
	type expCaller struct {
		row          int
		method, cls  string
	}
	type prog struct {
		src     string
		callers []expCaller
		// written calls per enclosing user method (name -> callee names in order)
		written map[string][]string
		feat    string
	}
	siteLines := func(ctx string, ind string) (lines []string, callLine int, callees []string) {
		// returns the lines of one site, the index of the line holding the call to helper, and the user-method callees written
		switch ctx {
		case "stmt":
			return []string{ind + "helper(1)"}, 0, []string{"helper"}
		case "assign":
			return []string{ind + "v = helper(1)"}, 0, []string{"helper"}
		case "if-cond":
			return []string{ind + "if helper(1) == 1", ind + "  w = 1", ind + "end"}, 0, []string{"helper"}
		case "elsif-cond":
			return []string{ind + "if 2 == 1", ind + "  w = 1", ind + "elsif helper(1) == 1", ind + "  w = 2", ind + "end"}, 2, []string{"helper"}
		case "unless-cond":
			return []string{ind + "unless helper(1) == 1", ind + "  w = 1", ind + "end"}, 0, []string{"helper"}
		case "while-cond":
			return []string{ind + "while helper(1) == 0", ind + "  w = 1", ind + "end"}, 0, []string{"helper"}
		case "argument":
			return []string{ind + "other(helper(1))"}, 0, []string{"helper", "other"}
		case "block":
			return []string{ind + "[1, 2].each do |e|", ind + "  helper(e)", ind + "end"}, 1, []string{"helper"}
		case "loop-body":
			return []string{ind + "i = 0", ind + "while i < 2", ind + "  helper(i)", ind + "  i = i + 1", ind + "end"}, 2, []string{"helper"}
		// two calls of the target on one row
		case "nested-arg":
			return []string{ind + "helper(helper(1))"}, 0, []string{"helper", "helper"}
		case "array-pair":
			return []string{ind + "v = [helper(1), helper(2)]"}, 0, []string{"helper", "helper"}
		// a condition whose first operand holds another conditional of the same keyword (inside a block)
		case "if-in-if-cond":
			return []string{ind + "if [1, 2].all? { |q| helper(q) > 0 if q > 0 }", ind + "  w = 1", ind + "end"}, 0, []string{"helper"}
		case "unless-in-unless-cond":
			return []string{ind + "unless [1, 2].any? { |q| helper(q) > 5 unless q > 9 }", ind + "  w = 1", ind + "end"}, 0, []string{"helper"}
		}
		panic(ctx)
	}
	var progs []prog
	for _, combo := range combos {
		var sb strings.Builder
		row := 0
		line := func(s string) { sb.WriteString(s + "\n"); row++ }
		p := prog{written: map[string][]string{}}
		line("def helper(a)")
		line("  a")
		line("end")
		line("def other(b)")
		line("  b")
		line("end")
		byEncl := map[string][]string{}
		for _, ki := range combo {
			k := kinds[ki]
			byEncl[k.encl] = append(byEncl[k.encl], k.ctx)
		}
		emit := func(encl, ind, mname, cls string) {
			for _, c := range byEncl[encl] {
				ls, ci, callees := siteLines(c, ind)
				for i, l := range ls {
					line(l)
					if i == ci {
						for _, cn := range callees {
							if cn == "helper" {
								p.callers = append(p.callers, expCaller{row, mname, cls})
							}
						}
					}
				}
				if mname != "top level" {
					p.written[mname] = append(p.written[mname], callees...)
				}
			}
		}
		if len(byEncl["topmethod"]) > 0 {
			line("def outer_m")
			emit("topmethod", "  ", "outer_m", "none")
			line("  1")
			line("end")
		}
		if len(byEncl["instmethod"]) > 0 || len(byEncl["classmethod"]) > 0 {
			line("class Klass")
			if len(byEncl["instmethod"]) > 0 {
				line("  def run_i")
				emit("instmethod", "    ", "run_i", "Klass")
				line("    1")
				line("  end")
			}
			if len(byEncl["classmethod"]) > 0 {
				line("  def self.run_c")
				emit("classmethod", "    ", "run_c", "Klass")
				line("    1")
				line("  end")
			}
			line("end")
		}
		emit("toplevel", "", "top level", "none")
		if len(byEncl["topmethod"]) > 0 {
			line("outer_m")
		}
		if len(byEncl["instmethod"]) > 0 {
			line("Klass.new.run_i")
		}
		if len(byEncl["classmethod"]) > 0 {
			line("Klass.run_c")
		}
		p.src = sb.String()
		var fs []string
		for _, ki := range combo {
			fs = append(fs, kinds[ki].ctx+"@"+kinds[ki].encl)
		}
		p.feat = strings.Join(fs, "+")
		progs = append(progs, p)
	}
	type cref struct {
		pi     int
		target string
	}
	var cases []*engine.Case
	var refs []cref
	for pi, p := range progs {
		cases = append(cases, &engine.Case{Cfg: "core", Files: map[string]string{"t.rb": p.src}, Argv: []string{"t.rb", "--llm-nav", "--target=helper"}})
		refs = append(refs, cref{pi, "helper"})
		var ms []string
		for m := range p.written {
			ms = append(ms, m)
		}
		sort.Strings(ms)
		for _, m := range ms {
			cases = append(cases, &engine.Case{Cfg: "core", Files: map[string]string{"t.rb": p.src}, Argv: []string{"t.rb", "--llm-nav", "--target=" + m}})
			refs = append(refs, cref{pi, m})
		}
	}
	// same method name in two classes (and at top level): every definition must get its own section
	sameName := "class Cat\n  def speak\n    1\n  end\nend\nclass Dog\n  def speak\n    \"s\"\n  end\nend\ndef chorus(c, d)\n  c.speak\n  d.speak\nend\ndef solo(c)\n  c.speak\nend\nchorus(Cat.new, Dog.new)\nsolo(Cat.new)\n"
	sameIdx := len(cases)
	cases = append(cases, &engine.Case{Cfg: "core", Files: map[string]string{"t.rb": sameName}, Argv: []string{"t.rb", "--llm-nav", "--target=speak"}})
	refs = append(refs, cref{-1, "speak"})
	// user-defined operator methods called in operator syntax: `--target=+` and `--target===`
	opSrc := "class Vecq\n  def initialize(x)\n    @x = x\n  end\n\n  def +(other)\n    Vecq.new(1)\n  end\n\n  def ==(other)\n    true\n  end\nend\nva = Vecq.new(1)\nvb = Vecq.new(2)\nvc = va + vb\nif va == vb\n  vd = va + va\nend\n[va].each { |ve| ve + vb }\nvf = va == vc\n"
	opIdx := len(cases)
	opWant := map[string][]int{"+": {16, 18, 20}, "==": {17, 21}}
	for _, tgt := range []string{"+", "=="} {
		cases = append(cases, &engine.Case{Cfg: "core", Files: map[string]string{"t.rb": opSrc}, Argv: []string{"t.rb", "--llm-nav", "--target=" + tgt}})
		refs = append(refs, cref{-2, tgt})
	}
	res := x.pool.RunAll(cases)
	type viol struct {
		idx  int
		desc string
	}
	bySig := map[string][]viol{}
	for k, tgt := range []string{"+", "=="} {
		rr := res[opIdx+k]
		var rows []string
		for _, l := range strings.Split(rr.Stdout, "\n") {
			if strings.Contains(l, "- call point: t.rb:") {
				rows = append(rows, strings.TrimSpace(strings.SplitN(l, "t.rb:", 2)[1]))
			}
		}
		var want []string
		for _, w := range opWant[tgt] {
			want = append(want, fmt.Sprint(w))
		}
		sort.Strings(rows)
		sort.Strings(want)
		if strings.Join(rows, ",") != strings.Join(want, ",") {
			s := "c24:operator-target:" + tgt
			bySig[s] = append(bySig[s], viol{opIdx + k, fmt.Sprintf("--target=%s: call points on rows %v, the source calls it on rows %v", tgt, rows, want)})
		}
	}
	var recs []execRec
	for i, rr := range res {
		r.Evaluations++
		r.Transitions++
		r.Nontrivial++
		ref := refs[i]
		if ref.pi == -2 {
			r.Outcome(rr.Stdout)
			continue // operator targets are judged above
		}
		if i == sameIdx {
			r.Outcome(rr.Stdout)
			n := strings.Count(rr.Stdout, "\n## ")
			if strings.HasPrefix(rr.Stdout, "## ") {
				n++
			}
			totals := strings.Count(rr.Stdout, "- total callers:")
			if n != 2 || totals != 2 || !strings.Contains(rr.Stdout, "Cat") || !strings.Contains(rr.Stdout, "Dog") {
				s := fmt.Sprintf("c24:same-name-sections:sections=%d:totals=%d", n, totals)
				bySig[s] = append(bySig[s], viol{i, fmt.Sprintf("--target=speak with Cat#speak and Dog#speak: %d `## ` sections, %d `total callers` lines (2 and 2 expected)", n, totals)})
			}
			continue
		}
		p := progs[ref.pi]
		if rr.Abnormal() {
			s := "abnormal:" + outOf(rr)
			bySig[s] = append(bySig[s], viol{i, outOf(rr)})
			continue
		}
		r.Outcome(rr.Stdout)
		if i%97 == 0 {
			recs = append(recs, execRec{"core", cases[i].Files, cases[i].Argv, rr.Stdout})
		}
		// parse
		type entry struct{ method, cls, point string }
		var callers, callees []entry
		total := map[string]int{"callers": -1, "callees": -1}
		section := ""
		var cur *entry
		for _, l := range strings.Split(rr.Stdout, "\n") {
			t := strings.TrimSpace(l)
			switch {
			case strings.HasPrefix(t, "- callers:"):
				section = "callers"
			case strings.HasPrefix(t, "- callees:"):
				section = "callees"
			case strings.HasPrefix(t, "- method: "):
				e := entry{method: strings.TrimPrefix(t, "- method: ")}
				if section == "callers" {
					callers = append(callers, e)
					cur = &callers[len(callers)-1]
				} else {
					callees = append(callees, e)
					cur = &callees[len(callees)-1]
				}
			case strings.HasPrefix(t, "- class: ") && cur != nil:
				cur.cls = strings.TrimPrefix(t, "- class: ")
			case (strings.HasPrefix(t, "- call point: ") || strings.HasPrefix(t, "- define point: ")) && cur != nil:
				cur.point = t[strings.Index(t, ": ")+2:]
			case strings.HasPrefix(t, "- total callers: "):
				fmt.Sscanf(strings.TrimPrefix(t, "- total callers: "), "%d", new(int))
				var n int
				fmt.Sscanf(strings.TrimPrefix(t, "- total callers: "), "%d", &n)
				total["callers"] = n
			case strings.HasPrefix(t, "- total callees: "):
				var n int
				fmt.Sscanf(strings.TrimPrefix(t, "- total callees: "), "%d", &n)
				total["callees"] = n
			}
		}
		if ref.target == "helper" {
			// expected multiset of (row, method, class)
			exp := map[string]int{}
			for _, c := range p.callers {
				exp[fmt.Sprintf("t.rb:%d|%s|%s", c.row, c.method, c.cls)]++
			}
			got := map[string]int{}
			for _, c := range callers {
				got[fmt.Sprintf("%s|%s|%s", c.point, c.method, c.cls)]++
			}
			// per expected site classify
			for _, ki := range siteKinds(p.feat) {
				_ = ki
			}
			for k, n := range exp {
				if got[k] != n {
					// which site kind is at that row?
					kind := siteKindAtRow(p.src, p.feat, k)
					what := "missing"
					if got[k] > n {
						what = "duplicated"
					} else if got[k] > 0 {
						what = "miscounted"
					}
					s := fmt.Sprintf("c24:caller-%s:%s", what, kind)
					bySig[s] = append(bySig[s], viol{i, fmt.Sprintf("expected %d caller entr(ies) %q, got %d (%s)", n, k, got[k], p.feat)})
				}
			}
			for k, n := range got {
				if exp[k] == 0 {
					s := "c24:caller-spurious"
					bySig[s] = append(bySig[s], viol{i, fmt.Sprintf("%d caller entr(ies) %q that correspond to no call site (%s)", n, k, p.feat)})
				}
			}
			if total["callers"] != len(p.callers) {
				s := fmt.Sprintf("c24:total-callers:%s", rootCauses(p.feat, ""))
				bySig[s] = append(bySig[s], viol{i, fmt.Sprintf("total callers %d, call sites %d (%s)", total["callers"], len(p.callers), p.feat)})
			}
		} else {
			written := map[string]int{}
			for _, c := range p.written[ref.target] {
				written[c]++
			}
			gotC := map[string]int{}
			for _, c := range callees {
				gotC[c.method]++
			}
			for name, n := range gotC {
				if n > written[name] {
					s := fmt.Sprintf("c24:callee-extra:%s", rootCauses(p.feat, map[string]string{"outer_m": "topmethod", "run_i": "instmethod", "run_c": "classmethod"}[ref.target]))
					bySig[s] = append(bySig[s], viol{i, fmt.Sprintf("callee %q listed %d times for %s, written %d times (%s)", name, n, ref.target, written[name], p.feat)})
				}
			}
		}
	}
	r.States = r.Evaluations
	r.Extra["mismatching_signatures"] = len(bySig)
	if dbg := os.Getenv("VERIF_DEBUG_SIGS"); dbg != "" {
		var sb strings.Builder
		for s, vs := range bySig {
			fmt.Fprintf(&sb, "%d\t%s\t%s\n", len(vs), s, vs[0].desc)
		}
		os.WriteFile(dbg, []byte(sb.String()), 0o644)
	}
	var sigs []string
	for s := range bySig {
		sigs = append(sigs, s)
	}
	sort.Strings(sigs)
	budget := 60
	for _, s := range sigs {
		vs := bySig[s]
		v := vs[0]
		if r.Known(s) == nil {
			if budget <= 0 {
				r.Unconfirmed = append(r.Unconfirmed, s+" (confirmation budget exhausted)")
				continue
			}
			budget--
			rr := x.realStable("core", cases[v.idx].Files, cases[v.idx].Argv)
			if rr.Stdout != res[v.idx].Stdout {
				r.Unconfirmed = append(r.Unconfirmed, s+" (real binary prints something else)")
				continue
			}
			r.Validated++
		}
		for i := range vs {
			if i == 0 {
				r.Report(s, fmt.Sprintf("%s (%d cases): %s", s, len(vs), v.desc),
					ReplayDoc{Cfg: "inline", Files: cases[v.idx].Files, Argv: cases[v.idx].Argv, Observed: head(res[v.idx].Stdout, 1500), Expected: v.desc, Note: "configuration: the 21 core files of /repo/test/.ti-config"})
			} else {
				r.Report(s, "", nil)
			}
		}
	}
	x.validateAgainstReal(recs, 30)
	r.Bounds = map[string]any{"programs": len(progs), "site_kinds": len(kinds), "max_sites": maxSites, "executions": len(cases)}
	r.Sample(map[string]any{"program": progs[len(progs)/2].src, "features": progs[len(progs)/2].feat})
}

func siteKinds(feat string) []string { return strings.Split(feat, "+") }

// siteKindAtRow recovers which site kind produced the expected caller key (by replaying the layout):
// the key carries method and class, which identify the enclosing; the context is found from the source line.
func siteKindAtRow(src, feat, key string) string {
	parts := strings.Split(key, "|")
	var row int
	fmt.Sscanf(strings.TrimPrefix(parts[0], "t.rb:"), "%d", &row)
	ls := strings.Split(src, "\n")
	l := ""
	if row-1 < len(ls) {
		l = strings.TrimSpace(ls[row-1])
	}
	ctx := "stmt"
	switch {
	case strings.HasPrefix(l, "if [1, 2].all?"):
		ctx = "if-in-if-cond"
	case strings.HasPrefix(l, "unless [1, 2].any?"):
		ctx = "unless-in-unless-cond"
	case strings.HasPrefix(l, "v = ["):
		ctx = "array-pair"
	case strings.HasPrefix(l, "helper(helper("):
		ctx = "nested-arg"
	case strings.HasPrefix(l, "v = "):
		ctx = "assign"
	case strings.HasPrefix(l, "if "):
		ctx = "if-cond"
	case strings.HasPrefix(l, "elsif "):
		ctx = "elsif-cond"
	case strings.HasPrefix(l, "unless "):
		ctx = "unless-cond"
	case strings.HasPrefix(l, "while "):
		ctx = "while-cond"
	case strings.HasPrefix(l, "other("):
		ctx = "argument"
	case l == "helper(e)":
		ctx = "block"
	case l == "helper(i)":
		ctx = "loop-body"
	}
	encl := map[string]string{"top level": "toplevel", "outer_m": "topmethod", "run_i": "instmethod", "run_c": "classmethod"}[parts[1]]
	return ctx + "@" + encl
}

// rootCauses summarises which of the two shapes that are known to be miscounted occur among the
// sites (restricted to one enclosing when encl != ""): a call in an if/elsif/unless condition, a call
// from a method of a class.
func rootCauses(feat, encl string) string {
	cond, class := false, false
	for _, k := range strings.Split(feat, "+") {
		p := strings.SplitN(k, "@", 2)
		if encl != "" && p[1] != encl {
			continue
		}
		if p[0] == "if-cond" || p[0] == "elsif-cond" || p[0] == "unless-cond" {
			cond = true
		}
		if p[1] == "instmethod" || p[1] == "classmethod" {
			class = true
		}
	}
	return fmt.Sprintf("has-condition-call=%v:has-call-from-class=%v", cond, class)
}

func totalClass(feat string) string {
	// coarse: which enclosings / contexts participate
	set := map[string]bool{}
	for _, k := range strings.Split(feat, "+") {
		set[k] = true
	}
	var ks []string
	for k := range set {
		ks = append(ks, k)
	}
	sort.Strings(ks)
	return strings.Join(ks, "+")
}

func calleeClass(feat, target string) string {
	encl := map[string]string{"outer_m": "topmethod", "run_i": "instmethod", "run_c": "classmethod"}[target]
	set := map[string]bool{}
	for _, k := range strings.Split(feat, "+") {
		if strings.HasSuffix(k, "@"+encl) {
			set[k] = true
		}
	}
	var ks []string
	for k := range set {
		ks = append(ks, k)
	}
	sort.Strings(ks)
	return strings.Join(ks, "+")
}
