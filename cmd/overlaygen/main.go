// overlaygen reads /repo's current working tree and emits a `go build -overlay` description that
// turns module `ti` into the in-process verification worker (see DESIGN.md §1.2).
//
//	overlaygen -repo /repo -hooks /verif/hooks -out <dir> [-mode worker|lexmc|conv]
//
// It is an AST/type-driven rewriter: nothing in /repo is modified.
package main

import (
	"bytes"
	"encoding/json"
	"flag"
	"fmt"
	"go/ast"
	"go/build"
	"go/importer"
	"go/parser"
	"go/printer"
	"go/token"
	"go/types"
	"os"
	"path/filepath"
	"sort"
	"strconv"
	"strings"
)

type pkgInfo struct {
	path    string // import path (ti, ti/base, …)
	dir     string
	name    string
	files   []*ast.File
	fnames  []string
	imports []string
	types   *types.Package
	info    *types.Info
}

var (
	fset      = token.NewFileSet()
	pkgs      = map[string]*pkgInfo{}
	stdImp    types.Importer
	siteCount int
	siteList  []string
	warnings  []string
	convMode  bool
)

type tiImporter struct{}

func (tiImporter) Import(path string) (*types.Package, error) {
	if path == "ti" || strings.HasPrefix(path, "ti/") {
		p, ok := pkgs[path]
		if !ok || p.types == nil {
			return nil, fmt.Errorf("package %s not yet checked", path)
		}
		return p.types, nil
	}
	return stdImp.Import(path)
}

func main() {
	repo := flag.String("repo", "/repo", "repository root")
	hooks := flag.String("hooks", "/verif/hooks", "hook sources")
	out := flag.String("out", "", "output directory")
	roots := flag.String("roots", ".", "comma separated main package dirs (relative to repo) to instrument")
	conv := flag.Bool("conv", false, "converter mode: only map-range rewriting (order policy from $VERIF_ORDER)")
	flag.Parse()
	convMode = *conv
	if *out == "" {
		fatal("need -out")
	}
	build.Default.GOROOT = goroot()
	stdImp = importer.ForCompiler(fset, "source", nil)

	os.MkdirAll(*out, 0o755)
	overlay := map[string]string{}

	// discover packages reachable from the roots
	var order []string
	var visit func(path string)
	seen := map[string]bool{}
	visit = func(path string) {
		if seen[path] {
			return
		}
		seen[path] = true
		dir := *repo
		if path != "ti" {
			dir = filepath.Join(*repo, strings.TrimPrefix(path, "ti/"))
		}
		p := loadPkg(path, dir)
		pkgs[path] = p
		for _, imp := range p.imports {
			if imp == "ti" || strings.HasPrefix(imp, "ti/") {
				if imp == "ti/verifrt" {
					continue
				}
				visit(imp)
			}
		}
		order = append(order, path)
	}
	for _, r := range strings.Split(*roots, ",") {
		if r == "." {
			visit("ti")
		} else {
			visit("ti/" + r)
		}
	}

	// type-check in dependency order
	for _, path := range order {
		p := pkgs[path]
		conf := types.Config{Importer: tiImporter{}, Error: func(err error) {}}
		p.info = &types.Info{
			Types:     map[ast.Expr]types.TypeAndValue{},
			Defs:      map[*ast.Ident]types.Object{},
			Uses:      map[*ast.Ident]types.Object{},
			InitOrder: nil,
		}
		tp, err := conf.Check(path, fset, p.files, p.info)
		if err != nil {
			warnings = append(warnings, fmt.Sprintf("typecheck %s: %v", path, err))
		}
		p.types = tp
	}

	// rewrite
	for _, path := range order {
		p := pkgs[path]
		rewritePkg(p, *out, overlay, path == "ti" || p.name == "main")
	}

	// added files
	addHook := func(src, dst string) {
		b, err := os.ReadFile(filepath.Join(*hooks, src))
		if err != nil {
			fatal("hook %s: %v", src, err)
		}
		o := filepath.Join(*out, strings.ReplaceAll(dst, "/", "__"))
		os.WriteFile(o, b, 0o644)
		overlay[filepath.Join(*repo, dst)] = o
	}
	addHook("verifrt/verifrt.go", "verifrt/verifrt.go")
	if _, ok := pkgs["ti"]; ok && !convMode {
		addHook("main/zz_worker.go", "zz_verif_worker.go")
		addHook("base/zz_dump.go", "base/zz_verif_dump.go")
	}
	if _, err := os.Stat(filepath.Join(*hooks, "lexmc/main.go")); err == nil && !convMode {
		addHook("lexmc/main.go", "cmd/zz_lexmc/main.go")
		addHook("reader/zz_pos.go", "lexer/reader/zz_verif_pos.go")
		addHook("lexer/zz_pos.go", "lexer/zz_verif_pos.go")
	}

	ob, _ := json.MarshalIndent(map[string]any{"Replace": overlay}, "", " ")
	os.WriteFile(filepath.Join(*out, "overlay.json"), ob, 0o644)
	meta, _ := json.MarshalIndent(map[string]any{"map_range_sites": siteList, "warnings": warnings, "packages": order}, "", " ")
	os.WriteFile(filepath.Join(*out, "meta.json"), meta, 0o644)
	for _, w := range warnings {
		fmt.Fprintln(os.Stderr, "overlaygen: warning:", w)
	}
	fmt.Printf("overlaygen: %d packages, %d map-range sites, %d files replaced/added\n", len(order), len(siteList), len(overlay))
}

func goroot() string {
	if g := os.Getenv("VERIF_GOROOT"); g != "" {
		return g
	}
	return build.Default.GOROOT
}

func fatal(f string, a ...any) {
	fmt.Fprintf(os.Stderr, "overlaygen: "+f+"\n", a...)
	os.Exit(2)
}

func loadPkg(path, dir string) *pkgInfo {
	ents, err := os.ReadDir(dir)
	if err != nil {
		fatal("read %s: %v", dir, err)
	}
	p := &pkgInfo{path: path, dir: dir}
	impset := map[string]bool{}
	var names []string
	for _, e := range ents {
		n := e.Name()
		if e.IsDir() || !strings.HasSuffix(n, ".go") || strings.HasSuffix(n, "_test.go") {
			continue
		}
		names = append(names, n)
	}
	sort.Strings(names)
	for _, n := range names {
		fn := filepath.Join(dir, n)
		f, err := parser.ParseFile(fset, fn, nil, parser.ParseComments)
		if err != nil {
			fatal("parse %s: %v", fn, err)
		}
		// honour build constraints crudely: skip files guarded by a tag other than ours
		if hasIgnoreTag(f) {
			continue
		}
		p.files = append(p.files, f)
		p.fnames = append(p.fnames, fn)
		p.name = f.Name.Name
		for _, im := range f.Imports {
			ip, _ := strconv.Unquote(im.Path.Value)
			impset[ip] = true
		}
	}
	for ip := range impset {
		p.imports = append(p.imports, ip)
	}
	sort.Strings(p.imports)
	return p
}

func hasIgnoreTag(f *ast.File) bool {
	for _, cg := range f.Comments {
		if cg.Pos() > f.Package {
			break
		}
		for _, c := range cg.List {
			if strings.HasPrefix(c.Text, "//go:build ") {
				expr := strings.TrimSpace(strings.TrimPrefix(c.Text, "//go:build "))
				if expr == "ignore" || strings.HasPrefix(expr, "!verif") {
					return true
				}
			}
		}
	}
	return false
}

// ---------------------------------------------------------------------------------------------

func rewritePkg(p *pkgInfo, out string, overlay map[string]string, isMain bool) {
	initCount := 0
	var initNames []string
	needReset := p.path != "ti/verifrt" && !convMode

	for i, f := range p.files {
		changed := false
		usesRT := false

		// (c) rename init functions
		for _, d := range f.Decls {
			fd, ok := d.(*ast.FuncDecl)
			if !ok || fd.Recv != nil {
				continue
			}
			if fd.Name.Name == "init" && needReset {
				initCount++
				fd.Name.Name = fmt.Sprintf("verifInit%d", initCount)
				initNames = append(initNames, fd.Name.Name)
				changed = true
			}
			if fd.Name.Name == "main" && isMain && !convMode {
				fd.Name.Name = "tiMain"
				changed = true
				if rewriteMainBody(fd) {
					usesRT = true
				}
			}
		}

		// (d) ticks
		for _, d := range f.Decls {
			fd, ok := d.(*ast.FuncDecl)
			if !ok || fd.Recv == nil || fd.Body == nil || convMode {
				continue
			}
			rt := recvTypeName(fd)
			if (p.path == "ti/lexer/reader" && rt == "LexerReader" && fd.Name.Name == "Read") ||
				(p.path == "ti/parser" && rt == "Parser" && fd.Name.Name == "getToken") {
				tick := &ast.ExprStmt{X: &ast.CallExpr{Fun: sel("verifrt", "Tick")}}
				fd.Body.List = append([]ast.Stmt{tick}, fd.Body.List...)
				changed, usesRT = true, true
			}
		}

		// (b) os.Exit  (e) map ranges
		ast.Inspect(f, func(n ast.Node) bool {
			switch x := n.(type) {
			case *ast.CallExpr:
				if se, ok := x.Fun.(*ast.SelectorExpr); ok {
					if id, ok := se.X.(*ast.Ident); ok && id.Name == "os" && se.Sel.Name == "Exit" && !convMode {
						if obj, ok := p.info.Uses[id]; ok {
							if pn, ok := obj.(*types.PkgName); ok && pn.Imported().Path() == "os" {
								x.Fun = sel("verifrt", "Exit")
								changed, usesRT = true, true
							}
						}
					}
				}
			case *ast.RangeStmt:
				tv, ok := p.info.Types[x.X]
				if ok {
					if _, isMap := tv.Type.Underlying().(*types.Map); isMap {
						siteCount++
						pos := fset.Position(x.Pos())
						rel := pos.Filename
						siteList = append(siteList, fmt.Sprintf("%d %s:%d", siteCount, rel, pos.Line))
						x.X = &ast.CallExpr{Fun: sel("verifrt", "Iter"), Args: []ast.Expr{
							&ast.BasicLit{Kind: token.INT, Value: strconv.Itoa(siteCount)}, x.X}}
						changed, usesRT = true, true
					}
				}
			}
			return true
		})

		if !changed {
			continue
		}
		if usesRT {
			addImport(f, "ti/verifrt")
		}
		fixUnusedImports(f)
		var buf bytes.Buffer
		if err := printer.Fprint(&buf, fset, f); err != nil {
			fatal("print %s: %v", p.fnames[i], err)
		}
		o := filepath.Join(out, strings.ReplaceAll(strings.TrimPrefix(p.fnames[i], "/"), "/", "__"))
		os.WriteFile(o, buf.Bytes(), 0o644)
		overlay[p.fnames[i]] = o
	}

	if p.path == "ti/lexer/reader" || p.path == "ti/parser" {
		// verify tick hooks landed
		// (a refactor that renames the functions degrades hang detection to the driver deadline)
	}

	if !needReset {
		return
	}
	// (c) generated reset file
	var sb strings.Builder
	resetImports := map[string]string{} // local name -> path
	for _, ini := range p.info.InitOrder {
		ast.Inspect(ini.Rhs, func(n ast.Node) bool {
			if id, ok := n.(*ast.Ident); ok {
				if pn, ok := p.info.Uses[id].(*types.PkgName); ok {
					resetImports[pn.Name()] = pn.Imported().Path()
				}
			}
			return true
		})
	}
	fmt.Fprintf(&sb, "//go:build verif\n\npackage %s\n\nimport \"ti/verifrt\"\n", p.name)
	var rin []string
	for n := range resetImports {
		rin = append(rin, n)
	}
	sort.Strings(rin)
	for _, n := range rin {
		fmt.Fprintf(&sb, "import %s %q\n", n, resetImports[n])
	}
	sb.WriteString("\n")
	qual := func(other *types.Package) string {
		if other == p.types {
			return ""
		}
		return other.Name()
	}
	_ = qual
	// variables without initialiser -> zero; with initialiser -> re-run in InitOrder
	inited := map[types.Object]bool{}
	for _, ini := range p.info.InitOrder {
		for _, v := range ini.Lhs {
			inited[v] = true
		}
	}
	sb.WriteString("func VerifReset() {\n")
	if p.types != nil {
		scope := p.types.Scope()
		names := scope.Names()
		for _, n := range names {
			obj := scope.Lookup(n)
			v, ok := obj.(*types.Var)
			if !ok || inited[v] || n == "_" {
				continue
			}
			if isEmbedVar(p, v) || strings.HasPrefix(n, "verif") {
				continue
			}
			fmt.Fprintf(&sb, "\tverifrt.Zero(&%s)\n", n)
		}
	}
	for _, ini := range p.info.InitOrder {
		var lhs []string
		for _, v := range ini.Lhs {
			lhs = append(lhs, v.Name())
		}
		skip := false
		for _, n := range lhs {
			if strings.HasPrefix(n, "verif") {
				skip = true
			}
		}
		if skip {
			continue
		}
		var eb bytes.Buffer
		printer.Fprint(&eb, fset, ini.Rhs)
		fmt.Fprintf(&sb, "\t%s = %s\n", strings.Join(lhs, ", "), eb.String())
	}
	sb.WriteString("\tverifInits()\n}\n\n")
	sb.WriteString("func verifInits() {\n")
	for _, n := range initNames {
		fmt.Fprintf(&sb, "\t%s()\n", n)
	}
	sb.WriteString("}\n\n")
	fmt.Fprintf(&sb, "func init() {\n\tverifInits()\n\tverifrt.RegisterReset(%q, VerifReset)\n}\n", p.path)
	dst := filepath.Join(p.dir, "zz_verif_reset.go")
	o := filepath.Join(out, strings.ReplaceAll(strings.TrimPrefix(dst, "/"), "/", "__"))
	os.WriteFile(o, []byte(sb.String()), 0o644)
	overlay[dst] = o
}

func isEmbedVar(p *pkgInfo, v *types.Var) bool {
	for _, f := range p.files {
		for _, d := range f.Decls {
			gd, ok := d.(*ast.GenDecl)
			if !ok || gd.Tok != token.VAR {
				continue
			}
			for _, s := range gd.Specs {
				vs := s.(*ast.ValueSpec)
				for _, n := range vs.Names {
					if p.info.Defs[n] == v {
						for _, cg := range []*ast.CommentGroup{gd.Doc, vs.Doc} {
							if cg != nil && strings.Contains(cg.Text()+commentRaw(cg), "go:embed") {
								return true
							}
						}
					}
				}
			}
		}
	}
	return false
}

func commentRaw(cg *ast.CommentGroup) string {
	var s string
	for _, c := range cg.List {
		s += c.Text
	}
	return s
}

func recvTypeName(fd *ast.FuncDecl) string {
	if fd.Recv == nil || len(fd.Recv.List) == 0 {
		return ""
	}
	t := fd.Recv.List[0].Type
	if st, ok := t.(*ast.StarExpr); ok {
		t = st.X
	}
	if id, ok := t.(*ast.Ident); ok {
		return id.Name
	}
	return ""
}

func sel(x, s string) *ast.SelectorExpr {
	return &ast.SelectorExpr{X: ast.NewIdent(x), Sel: ast.NewIdent(s)}
}

// rewriteMainBody: time.After(...) -> verifrt.Watchdog(); every `go func(){…}()` gets
// verifrt.GoStart() before it and `defer verifrt.GoDone()` as first statement.
func rewriteMainBody(fd *ast.FuncDecl) bool {
	changed := false
	var fix func(list []ast.Stmt) []ast.Stmt
	fix = func(list []ast.Stmt) []ast.Stmt {
		var outl []ast.Stmt
		for _, s := range list {
			if gs, ok := s.(*ast.GoStmt); ok {
				if fl, ok := gs.Call.Fun.(*ast.FuncLit); ok {
					fl.Body.List = append([]ast.Stmt{&ast.DeferStmt{Call: &ast.CallExpr{Fun: sel("verifrt", "GoDone")}}}, fl.Body.List...)
					outl = append(outl, &ast.ExprStmt{X: &ast.CallExpr{Fun: sel("verifrt", "GoStart")}})
					changed = true
				}
			}
			outl = append(outl, s)
		}
		return outl
	}
	ast.Inspect(fd, func(n ast.Node) bool {
		switch x := n.(type) {
		case *ast.BlockStmt:
			x.List = fix(x.List)
		case *ast.CallExpr:
			if se, ok := x.Fun.(*ast.SelectorExpr); ok {
				if id, ok := se.X.(*ast.Ident); ok && id.Name == "time" && se.Sel.Name == "After" {
					x.Fun = sel("verifrt", "Watchdog")
					x.Args = nil
					changed = true
				}
			}
		}
		return true
	})
	return changed
}

func addImport(f *ast.File, path string) {
	for _, im := range f.Imports {
		if im.Path.Value == strconv.Quote(path) {
			return
		}
	}
	spec := &ast.ImportSpec{Path: &ast.BasicLit{Kind: token.STRING, Value: strconv.Quote(path)}}
	for _, d := range f.Decls {
		if gd, ok := d.(*ast.GenDecl); ok && gd.Tok == token.IMPORT {
			gd.Specs = append(gd.Specs, spec)
			if !gd.Lparen.IsValid() {
				gd.Lparen = gd.Pos()
				gd.Rparen = gd.End()
			}
			f.Imports = append(f.Imports, spec)
			return
		}
	}
	gd := &ast.GenDecl{Tok: token.IMPORT, Specs: []ast.Spec{spec}}
	f.Decls = append([]ast.Decl{gd}, f.Decls...)
	f.Imports = append(f.Imports, spec)
}

// fixUnusedImports turns imports whose package name is no longer referenced into blank imports.
func fixUnusedImports(f *ast.File) {
	used := map[string]bool{}
	ast.Inspect(f, func(n ast.Node) bool {
		if se, ok := n.(*ast.SelectorExpr); ok {
			if id, ok := se.X.(*ast.Ident); ok {
				used[id.Name] = true
			}
		}
		return true
	})
	for _, im := range f.Imports {
		if im.Name != nil {
			continue
		}
		p, _ := strconv.Unquote(im.Path.Value)
		base := p[strings.LastIndex(p, "/")+1:]
		if !used[base] {
			im.Name = ast.NewIdent("_")
		}
	}
}
