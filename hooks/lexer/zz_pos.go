//go:build verif

package lexer

import "ti/lexer/reader"

// VerifReader exposes the lexer's private reader for the C03 explorer.
func (l *Lexer) VerifReader() *reader.LexerReader { return &l.reader }
