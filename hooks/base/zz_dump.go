//go:build verif

package base

import (
	"crypto/sha256"
	"encoding/hex"
	"fmt"
	"sort"
	"strings"
)

// Canonical dump of the configured part of TFrame (keys present right after configuration
// loading), ClassInheritanceMap and BuiltinClasses. Scratch fields that lookups legitimately
// rewrite (beforeEvaluateCode, ID, IsBeforeSpace, Round, isInfferedFromCall) are left out.

var verifKeys []FrameKey

func VerifSnapshotKeys() {
	verifKeys = verifKeys[:0]
	for k := range TFrame {
		verifKeys = append(verifKeys, k)
	}
	sort.Slice(verifKeys, func(i, j int) bool { return verifKeyStr(verifKeys[i]) < verifKeyStr(verifKeys[j]) })
}

func verifKeyStr(k FrameKey) string {
	return fmt.Sprintf("%s|%s|%s|%s|%v|%v", k.frame, k.targetClass, k.targetMethod, k.targetVariable, k.isPrivate, k.isStatic)
}

func verifDumpT(sb *strings.Builder, t *T, depth int) {
	if t == nil {
		sb.WriteString("<nil>")
		return
	}
	if depth > 6 {
		sb.WriteString("<deep>")
		return
	}
	fmt.Fprintf(sb, "{ty=%d fr=%q oc=%q m=%q args=%q", t.tType, t.frame, t.objectClass, t.method, t.defineArgs)
	switch v := t.val.(type) {
	case string:
		fmt.Fprintf(sb, " val=%q", v)
	case int, int64, float64, bool:
		fmt.Fprintf(sb, " val=%v", v)
	}
	fmt.Fprintf(sb, " def=%v bi=%v ast=%v cond=%v destr=%v blk=%v prot=%v st=%v cap=%v ro=%v",
		t.hasDefault, t.isBuiltin, t.IsBuiltinAsterisk, t.IsConditionalReturn, t.IsDestructive,
		t.IsBlockGiven, t.IsProtected, t.IsStatic, t.IsCaptureOwner, t.isReadOnly)
	if len(t.variants) > 0 {
		sb.WriteString(" variants=[")
		for i := range t.variants {
			verifDumpT(sb, &t.variants[i], depth+1)
		}
		sb.WriteString("]")
	}
	if len(t.blockParamaters) > 0 {
		sb.WriteString(" bp=[")
		for i := range t.blockParamaters {
			verifDumpT(sb, &t.blockParamaters[i], depth+1)
		}
		sb.WriteString("]")
	}
	if len(t.Overloads) > 0 {
		sb.WriteString(" ov=[")
		for i := range t.Overloads {
			verifDumpT(sb, &t.Overloads[i], depth+1)
		}
		sb.WriteString("]")
	}
	sb.WriteString("}")
}

// VerifDump renders the snapshot keys; text=false returns only a hash.
func VerifDump(text bool) string {
	var sb strings.Builder
	for _, k := range verifKeys {
		sb.WriteString(verifKeyStr(k))
		sb.WriteString(" => ")
		t, ok := TFrame[k]
		if !ok {
			sb.WriteString("<missing>")
		} else {
			verifDumpT(&sb, t, 0)
		}
		sb.WriteString("\n")
	}
	if text {
		return sb.String()
	}
	return VerifHash(sb.String())
}

func VerifHash(s string) string {
	h := sha256.Sum256([]byte(s))
	return hex.EncodeToString(h[:12])
}
