//go:build verif

// lexmc — exhaustive explorer for property C03: drives the real lexer and the real parser.Read over
// every string of a rune alphabet up to a length bound (DESIGN.md §5 C03).
package main

import (
	"bufio"
	"encoding/json"
	"flag"
	"fmt"
	"os"
	"strings"

	"ti/lexer"
	"ti/lexer/reader"
	"ti/parser"
	"ti/verifrt"
)

var sigmaR = atoms([]rune{'a', 'Z', '_', '1', '0', 'x', 'e', ' ', '\t', '\n', '\r', '"', '\'', '\\', '#', '{', '}', '(', ')', '[', ']',
	',', ';', '^', '`', '<', '>', '=', '.', '%', 'w', '!', '+', '-', '/', '&', '|', ':', '*', '?', '@', '$', '~',
	0, 0xFFFD, 'é', 'あ', 0x00A0, 0x3000, 'E'})

// a 30-rune sub-alphabet for one more level of depth
var sigmaR30 = atoms([]rune{'a', 'Z', '1', 'x', ' ', '\n', '"', '\'', '\\', '#', '{', '}', '(', ')', '[', ']', ',', '<', '=', '.', '%', 'w',
	'-', '&', '|', ':', '*', '?', '@', 0})

// the wide alphabet adds one representative of every further class the Unicode predicates and the
// UTF-8 decoder distinguish: non-ASCII decimal digits, upper-case letter, symbol, astral rune, line
// and paragraph separators, BOM, DEL, VT, FF, and three ill-formed byte sequences (lone lead byte,
// truncated three-byte sequence, byte that is never valid)
var sigmaWide = append(append([]string{}, sigmaR...), append(atoms([]rune{0xFF11, 0x0663, 'É', 0x2192, 0x1F600, 0x2028, 0x2029, 0xFEFF, 0x7F, '\v', '\f', 0x0301}),
	"\xE9", "\xE3\x81", "\xFF")...)

func atoms(rs []rune) []string {
	out := make([]string, len(rs))
	for i, r := range rs {
		out[i] = string(r)
	}
	return out
}

type finding struct {
	Sig     string `json:"sig"`
	Count   int64  `json:"count"`
	Example string `json:"-"`
	Raw     []byte `json:"example_raw"` // the example's bytes (it may be ill-formed UTF-8)
}

type summary struct {
	Strings     int64               `json:"strings"`
	Tokens      int64               `json:"tokens"`
	MaxTicks    int64               `json:"max_ticks"`
	Findings    map[string]*finding `json:"findings"`
	Kinds       map[string]int64    `json:"kinds"`
	Alphabet    int                 `json:"alphabet"`
	MaxLen      int                 `json:"max_len"`
	Shard       string              `json:"shard"`
	DistinctTok int                 `json:"distinct_token_shapes"`
}

var sum = summary{Findings: map[string]*finding{}, Kinds: map[string]int64{}}
var tokShapes = map[string]bool{}

func report(sig, s string) {
	f := sum.Findings[sig]
	if f == nil {
		f = &finding{Sig: sig, Example: s}
		sum.Findings[sig] = f
	}
	f.Count++
	if len(s) < len(f.Example) {
		f.Example = s
	}
}

func runeClass(r rune) string {
	switch {
	case r == 0:
		return "NUL"
	case r == '\n':
		return "LF"
	case r == 0xFFFD:
		return "U+FFFD"
	case r < 0x80:
		return string(r)
	}
	return fmt.Sprintf("U+%04X", r)
}

// lexOne: oracle (i) and (ii)
func lexOne(s string) {
	rs := []rune(s)
	hung := false
	func() {
		defer func() {
			if r := recover(); r != nil {
				if _, ok := r.(verifrt.HangSentinel); ok {
					hung = true
					return
				}
				report("lexer-panic:"+fmt.Sprint(r), s)
			}
		}()
		verifrt.BeginCase("native", int64(64*(len(rs)+4)))
		verifrt.HangPanic = true
		lr := reader.New(*bufio.NewReader(strings.NewReader(s)))
		l := lexer.New(lr)
		n := 0
		for l.Advance() {
			n++
			if n > len(rs)+1 {
				report("too-many-tokens", s)
				return
			}
		}
		sum.Tokens += int64(n)
		pos, total, hist, _ := l.VerifReader().VerifState()
		if pos != total || hist != 0 {
			next := "history"
			if pos < total {
				next = runeClass(rs[pos])
				if pos > 0 {
					// the rune that made Advance give up is the one before the cursor
					next = runeClass(rs[pos-1])
				}
			}
			report("unconsumed:stops-at:"+next, s)
		}
	}()
	if verifrt.Ticks > sum.MaxTicks {
		sum.MaxTicks = verifrt.Ticks
	}
	if hung {
		report("lexer-hang:"+verifrt.HangSite, s)
	}
}

// parseOne: oracle (iii)
func parseOne(s string) {
	rs := []rune(s)
	hung := false
	func() {
		defer func() {
			if r := recover(); r != nil {
				if _, ok := r.(verifrt.HangSentinel); ok {
					hung = true
					return
				}
				report("parser-read-panic:"+fmt.Sprint(r), s)
			}
		}()
		verifrt.BeginCase("native", int64(64*(len(rs)+4)))
		verifrt.HangPanic = true
		lr := reader.New(*bufio.NewReader(strings.NewReader(s)))
		l := lexer.New(lr)
		p := parser.New(l, "t.rb")
		for i := 0; i <= len(rs)+2; i++ {
			t, err := p.Read()
			if err != nil {
				report("parser-error:"+err.Error()+":token:"+runeClass(p.Lexer.Token()), s)
				return
			}
			if t == nil {
				return
			}
			shape := fmt.Sprintf("%d", t.GetType())
			if !tokShapes[shape] {
				tokShapes[shape] = true
			}
			sum.Kinds[shape]++
		}
		report("parser-too-many-tokens", s)
	}()
	if hung {
		report("parser-hang:"+verifrt.HangSite, s)
	}
}

func main() {
	maxLen := flag.Int("len", 3, "max string length")
	alpha := flag.String("alphabet", "r50", "r50|r30|wide")
	shard := flag.Int("shard", 0, "shard index")
	nshard := flag.Int("nshard", 1, "number of shards")
	single := flag.String("string", "", "check one string (JSON quoted) and print findings")
	corpus := flag.String("corpus", "", "file with one JSON-quoted string per line: check every rune prefix of each")
	flag.Parse()
	A := sigmaR
	switch *alpha {
	case "r30":
		A = sigmaR30
	case "wide":
		A = sigmaWide
	}
	sum.Alphabet, sum.MaxLen, sum.Shard = len(A), *maxLen, fmt.Sprintf("%d/%d", *shard, *nshard)
	check := func(s string) {
		sum.Strings++
		lexOne(s)
		parseOne(s)
	}
	switch {
	case *single != "":
		var s string
		if err := json.Unmarshal([]byte(*single), &s); err != nil {
			s = *single
		}
		check(s)
	case *corpus != "":
		f, err := os.Open(*corpus)
		if err != nil {
			fmt.Fprintln(os.Stderr, err)
			os.Exit(2)
		}
		sc := bufio.NewScanner(f)
		sc.Buffer(make([]byte, 1<<20), 1<<24)
		ln := 0
		for sc.Scan() {
			ln++
			if (ln-1)%*nshard != *shard {
				continue
			}
			var s string
			if json.Unmarshal(sc.Bytes(), &s) != nil {
				continue
			}
			rs := []rune(s)
			for i := 1; i <= len(rs); i++ {
				check(string(rs[:i]))
			}
		}
	default:
		// depth-first enumeration; sharded on the (first, second) atom pair; length-1 strings belong to shard 0
		if *shard == 0 {
			for _, a := range A {
				check(a)
				if a != "\n" {
					check(a + "\n")
				}
			}
		}
		if *maxLen >= 2 {
			idx := 0
			for _, a1 := range A {
				for _, a2 := range A {
					idx++
					if idx%*nshard != *shard {
						continue
					}
					recFrom(A, a1+a2, a2, 2, *maxLen, check)
				}
			}
		}
	}
	sum.DistinctTok = len(tokShapes)
	for _, f := range sum.Findings {
		f.Raw = []byte(f.Example)
	}
	enc := json.NewEncoder(os.Stdout)
	enc.Encode(sum)
}

func recFrom(A []string, s, last string, depth, maxLen int, check func(string)) {
	check(s)
	if last != "\n" {
		check(s + "\n")
	}
	if depth == maxLen {
		return
	}
	for _, a := range A {
		recFrom(A, s+a, a, depth+1, maxLen, check)
	}
}
