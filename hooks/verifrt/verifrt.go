//go:build verif

// Package verifrt is the runtime that the verification overlay links into module `ti`.
// It owns every source of nondeterminism the in-process engine controls:
// process exit, the watchdog, map iteration order, hang detection (tick budget).
// It imports nothing from module ti.
package verifrt

import (
	"fmt"
	"iter"
	"os"
	"runtime"
	"sort"
	"strings"
)

// ---------------------------------------------------------------- per-case state

var (
	resetFns   []func()
	resetNames []string

	// per case
	Ticks         int64
	TickBudget    int64 = 2_000_000
	HangFlag      bool
	HangSite      string
	hangPrefix    []string
	ExitCode      = -1 // -1: returned normally
	exitRequested bool
	Finished      bool
	CrashValue    string
	CrashSite     string
	CrashStack    string
	watchdog      chan struct{}
	goDone        chan struct{}
	goStarted     int

	// map-order policy
	orderMode  string // fast | sorted | reversed | rot | dev | native
	orderRot   int
	orderDev   map[int]bool
	RangeExecs int
	RangeSites map[int]int
	OnFinish   func() // called by GoDone exactly once, on the analysis goroutine, before it signals
)

func init() {
	RangeSites = map[int]int{}
	setOrder(os.Getenv("VERIF_ORDER"))
}

// HangSentinel is what Tick panics with when HangPanic is set (used by the C03 explorer, whose
// subject code has no recover); the worker uses runtime.Goexit instead.
type HangSentinel struct{}

var HangPanic bool

func RegisterReset(name string, f func()) {
	resetNames = append(resetNames, name)
	resetFns = append(resetFns, f)
}

// ResetAll re-initialises every registered package in registration (= import DAG) order.
func ResetAll() {
	for _, f := range resetFns {
		f()
	}
}

func ResetNames() []string { return resetNames }

// BeginCase resets the runtime's own per-case state.
func BeginCase(order string, budget int64) {
	Ticks = 0
	if budget > 0 {
		TickBudget = budget
	} else {
		TickBudget = 2_000_000
	}
	HangFlag = false
	HangSite = ""
	hangPrefix = nil
	ExitCode = -1
	exitRequested = false
	Finished = false
	CrashValue, CrashSite, CrashStack = "", "", ""
	watchdog = make(chan struct{}, 4)
	goDone = make(chan struct{}, 4)
	goStarted = 0
	RangeExecs = 0
	RangeSites = map[int]int{}
	setOrder(order)
}

func setOrder(order string) {
	orderMode, orderRot, orderDev = "sorted", 0, nil
	switch {
	case order == "" || order == "fast":
		orderMode = "fast"
	case order == "sorted":
	case order == "reversed":
		orderMode = "reversed"
	case order == "native":
		orderMode = "native"
	case strings.HasPrefix(order, "rot:"):
		orderMode = "rot"
		fmt.Sscanf(order[4:], "%d", &orderRot)
	case strings.HasPrefix(order, "dev:"):
		orderMode = "dev"
		orderDev = map[int]bool{}
		for _, s := range strings.Split(order[4:], ",") {
			var j int
			if _, err := fmt.Sscanf(s, "%d", &j); err == nil {
				orderDev[j] = true
			}
		}
	default:
		panic("verifrt: unknown order policy " + order)
	}
}

// ---------------------------------------------------------------- exit / goroutine / watchdog

// Exit replaces os.Exit: it records the status and ends the calling goroutine with
// runtime.Goexit (deferred functions run; a recover() inside ti cannot swallow it).
func Exit(code int) {
	if !Finished && !exitRequested {
		ExitCode = code
		exitRequested = true
	}
	runtime.Goexit()
}

// Watchdog replaces time.After(500ms): it never fires by time. It is signalled when the analysis
// goroutine ended abnormally (exit, crash, hang) so that the select in main does not block forever.
func Watchdog() <-chan struct{} { return watchdog }

// GoDone is deferred as the first statement of every goroutine literal started from main.
func GoDone() {
	r := recover()
	abnormal := r != nil || exitRequested || HangFlag
	if !Finished {
		if r != nil {
			recordCrash(r)
		}
		if OnFinish != nil {
			OnFinish()
		}
		Finished = true
	}
	if abnormal {
		watchdog <- struct{}{}
	}
	goDone <- struct{}{}
}

func GoStart() { goStarted++ }

// RunMain runs f (the renamed main) on a fresh goroutine and waits for it and for the analysis
// goroutine it starts.
func RunMain(f func()) {
	done := make(chan struct{})
	go func() {
		defer func() {
			r := recover()
			if !Finished && (r != nil || goStarted == 0) {
				if r != nil {
					recordCrash(r)
				}
				if OnFinish != nil {
					OnFinish()
				}
				Finished = true
			}
			close(done)
		}()
		f()
	}()
	<-done
	for i := 0; i < goStarted; i++ {
		<-goDone
	}
	if !Finished {
		if OnFinish != nil {
			OnFinish()
		}
		Finished = true
	}
}

func recordCrash(r any) {
	CrashValue = fmt.Sprint(r)
	pcs := make([]uintptr, 64)
	n := runtime.Callers(3, pcs)
	frames := runtime.CallersFrames(pcs[:n])
	var sb strings.Builder
	site := ""
	for {
		fr, more := frames.Next()
		fn := fr.Function
		if strings.HasPrefix(fn, "ti/") || strings.HasPrefix(fn, "main.") {
			if !strings.HasPrefix(fn, "ti/verifrt") && site == "" {
				site = fn
			}
		}
		fmt.Fprintf(&sb, "%s\n", fn)
		if !more {
			break
		}
	}
	CrashSite = site
	CrashStack = sb.String()
}

// ---------------------------------------------------------------- ticks (hang detection)

// Tick is called at the top of reader.(*LexerReader).Read and parser.(*Parser).getToken.
func Tick() {
	Ticks++
	if Ticks < TickBudget {
		return
	}
	if !HangFlag {
		HangFlag = true
	}
	// attribution window: for 3000 further ticks keep the common root-first prefix of all stacks
	// seen; its last frame (after dropping the token/rune fetch frames) is the function whose loop
	// keeps asking for input.
	if Ticks < TickBudget+3000 {
		pcs := make([]uintptr, 256)
		n := runtime.Callers(2, pcs)
		frames := runtime.CallersFrames(pcs[:n])
		var fns []string
		for {
			fr, more := frames.Next()
			fns = append(fns, fr.Function)
			if !more {
				break
			}
		}
		reverse(fns) // root first
		if hangPrefix == nil {
			hangPrefix = fns
		} else {
			i := 0
			for i < len(hangPrefix) && i < len(fns) && hangPrefix[i] == fns[i] {
				i++
			}
			hangPrefix = hangPrefix[:i]
		}
		return
	}
	if HangSite == "" {
		HangSite = attribute(hangPrefix)
	}
	if HangPanic {
		panic(HangSentinel{})
	}
	runtime.Goexit()
}

func attribute(prefix []string) string {
	for i := len(prefix) - 1; i >= 0; i-- {
		f := prefix[i]
		if strings.HasPrefix(f, "ti/verifrt") || strings.HasPrefix(f, "ti/lexer/reader.") ||
			f == "ti/parser.(*Parser).getToken" || f == "ti/parser.(*Parser).Read" {
			continue
		}
		if strings.HasPrefix(f, "ti/") || strings.HasPrefix(f, "main.") {
			return f
		}
	}
	return "?"
}

// ---------------------------------------------------------------- map iteration order

// Iter replaces `range m` for every map-typed range expression of module ti.
// Entries deleted before they are reached are skipped; entries added during the loop are not
// visited (both allowed by the Go specification).
func Iter[K comparable, V any](site int, m map[K]V) iter.Seq2[K, V] {
	return func(yield func(K, V) bool) {
		// "fast" (the default of every comparing check): maps with more than 256 keys are iterated in
		// native order; their order-independence is what C05 establishes under the full policies.
		if orderMode == "native" || (orderMode == "fast" && len(m) > 256) {
			if orderMode == "fast" {
				RangeExecs++
			}
			for k, v := range m {
				if !yield(k, v) {
					return
				}
			}
			return
		}
		exec := RangeExecs
		RangeExecs++
		RangeSites[site]++
		keys := make([]K, 0, len(m))
		for k := range m {
			keys = append(keys, k)
		}
		rend := make([]string, len(keys))
		for i, k := range keys {
			rend[i] = fmt.Sprintf("%#v", k)
		}
		idx := make([]int, len(keys))
		for i := range idx {
			idx[i] = i
		}
		sort.Slice(idx, func(a, b int) bool { return rend[idx[a]] < rend[idx[b]] })
		ordered := make([]K, len(keys))
		for i, j := range idx {
			ordered[i] = keys[j]
		}
		switch orderMode {
		case "reversed":
			reverse(ordered)
		case "rot":
			if n := len(ordered); n > 0 {
				r := orderRot % n
				ordered = append(append([]K{}, ordered[r:]...), ordered[:r]...)
			}
		case "dev":
			if orderDev[exec] {
				reverse(ordered)
			}
		}
		for _, k := range ordered {
			v, ok := m[k]
			if !ok {
				continue
			}
			if !yield(k, v) {
				return
			}
		}
	}
}

func reverse[K any](s []K) {
	for i, j := 0, len(s)-1; i < j; i, j = i+1, j-1 {
		s[i], s[j] = s[j], s[i]
	}
}

// Zero assigns the zero value (used by generated reset code for variables without initialiser).
func Zero[T any](p *T) {
	var z T
	*p = z
}
