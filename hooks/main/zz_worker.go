//go:build verif

package main

import (
	"encoding/base64"
	"bufio"
	"encoding/json"
	"io"
	"os"
	"runtime/debug"
	"runtime/pprof"
	"strings"
	"time"

	"ti/base"
	"ti/verifrt"
)

// Case is one execution request (driver -> worker), one JSON document per line.
type verifCase struct {
	ID     int               `json:"id"`
	Dir    string            `json:"dir"`
	Files  map[string]string `json:"files,omitempty"`
	FilesB64 map[string]string `json:"files_b64,omitempty"` // contents that are not valid UTF-8
	Argv   []string          `json:"argv"`
	Order  string            `json:"order,omitempty"`
	Dump   string            `json:"dump,omitempty"` // "", "hash", "text"
	Budget int64             `json:"budget,omitempty"`
	Keep   bool              `json:"keep,omitempty"` // keep files after the run
}

type verifResult struct {
	ID         int    `json:"id"`
	Exit       int    `json:"exit"`
	Stdout     string `json:"stdout"`
	Stderr     string `json:"stderr,omitempty"`
	CrashValue string `json:"crash,omitempty"`
	CrashSite  string `json:"crash_site,omitempty"`
	CrashStack string `json:"crash_stack,omitempty"`
	Hang       bool   `json:"hang,omitempty"`
	HangSite   string `json:"hang_site,omitempty"`
	Ticks      int64  `json:"ticks"`
	RangeExecs int    `json:"range_execs"`
	DumpBefore string `json:"dump_before,omitempty"`
	DumpAfter  string `json:"dump_after,omitempty"`
	DumpDiff   []string `json:"dump_diff,omitempty"`
	WallNs     int64  `json:"wall_ns"`
}

func verifReadCap(f *os.File) string {
	off, _ := f.Seek(0, io.SeekCurrent)
	if off == 0 {
		return ""
	}
	buf := make([]byte, off)
	n, _ := f.ReadAt(buf, 0)
	return string(buf[:n])
}

func verifWorkerMain() {
	debug.SetMaxStack(256 << 20)
	debug.SetGCPercent(400)
	if pf := os.Getenv("VERIF_PROF"); pf != "" {
		f, _ := os.Create(pf)
		pprof.StartCPUProfile(f)
		defer pprof.StopCPUProfile()
	}
	realOut := os.NewFile(uintptr(3), "verif-out")
	if realOut == nil {
		realOut = os.Stdout
	}
	capDir := os.Getenv("VERIF_CAPDIR")
	if capDir == "" {
		capDir = "/dev/shm"
	}
	capOut, err := os.CreateTemp(capDir, "tiw-out-*")
	if err != nil {
		panic(err)
	}
	capErr, err := os.CreateTemp(capDir, "tiw-err-*")
	if err != nil {
		panic(err)
	}
	os.Remove(capOut.Name())
	os.Remove(capErr.Name())
	os.Stdout = capOut
	os.Stderr = capErr

	in := bufio.NewReaderSize(os.Stdin, 1<<20)
	out := bufio.NewWriterSize(realOut, 1<<20)
	enc := json.NewEncoder(out)
	for {
		line, err := in.ReadBytes('\n')
		if len(line) > 0 {
			var c verifCase
			if jerr := json.Unmarshal(line, &c); jerr != nil {
				panic("verif worker: bad case: " + jerr.Error())
			}
			// announce the case id before running it, so the driver can attribute a worker death
			out.WriteString("#" + itoa(c.ID) + "\n")
			out.Flush()
			res := verifRunCase(&c, capOut, capErr)
			enc.Encode(res)
			out.Flush()
		}
		if err != nil {
			return
		}
	}
}

func itoa(i int) string {
	b, _ := json.Marshal(i)
	return string(b)
}

func verifRunCase(c *verifCase, capOut, capErr *os.File) *verifResult {
	res := &verifResult{ID: c.ID}
	t0 := time.Now()
	if err := os.Chdir(c.Dir); err != nil {
		panic("verif worker: chdir " + c.Dir + ": " + err.Error())
	}
	for name, content := range c.Files {
		if i := strings.LastIndexByte(name, '/'); i > 0 {
			os.MkdirAll(name[:i], 0o755)
		}
		if err := os.WriteFile(name, []byte(content), 0o644); err != nil {
			panic("verif worker: write " + name + ": " + err.Error())
		}
	}
	for name, content := range c.FilesB64 {
		b, err := base64.StdEncoding.DecodeString(content)
		if err != nil {
			panic("verif worker: base64 " + name + ": " + err.Error())
		}
		if err := os.WriteFile(name, b, 0o644); err != nil {
			panic("verif worker: write " + name + ": " + err.Error())
		}
	}
	capOut.Truncate(0)
	capOut.Seek(0, io.SeekStart)
	capErr.Truncate(0)
	capErr.Seek(0, io.SeekStart)

	verifrt.BeginCase(c.Order, c.Budget)
	os.Args = append([]string{"ti"}, c.Argv...)
	var stdout, stderr, beforeText string
	verifrt.OnFinish = func() {
		stdout = verifReadCap(capOut)
		stderr = verifReadCap(capErr)
		if c.Dump == "diff" {
			after := base.VerifDump(true)
			res.DumpAfter = base.VerifHash(after)
			if after != beforeText {
				bl, al := strings.Split(beforeText, "\n"), strings.Split(after, "\n")
				for k := 0; k < len(bl) && k < len(al) && len(res.DumpDiff) < 24; k++ {
					if bl[k] != al[k] {
						res.DumpDiff = append(res.DumpDiff, bl[k]+"  ##AFTER##  "+al[k])
					}
				}
			}
		} else if c.Dump != "" {
			res.DumpAfter = base.VerifDump(c.Dump == "text")
		}
	}
	// reset = what process start does: package variable initialisers + init functions
	func() {
		defer func() {
			if r := recover(); r != nil {
				res.CrashValue = "reset: " + sprint(r)
				res.CrashSite = "reset"
			}
		}()
		verifrt.ResetAll()
	}()
	if res.CrashSite == "" {
		if c.Dump == "diff" {
			base.VerifSnapshotKeys()
			beforeText = base.VerifDump(true)
			res.DumpBefore = base.VerifHash(beforeText)
		} else if c.Dump != "" {
			base.VerifSnapshotKeys()
			res.DumpBefore = base.VerifDump(c.Dump == "text")
		}
		verifrt.RunMain(tiMain)
		res.Exit = verifrt.ExitCode
		if res.Exit == -1 {
			res.Exit = 0
		}
		res.CrashValue = verifrt.CrashValue
		res.CrashSite = verifrt.CrashSite
		res.CrashStack = verifrt.CrashStack
		res.Hang = verifrt.HangFlag
		res.HangSite = verifrt.HangSite
	} else {
		res.Exit = 2
	}
	res.Stdout = stdout
	res.Stderr = stderr
	res.Ticks = verifrt.Ticks
	res.RangeExecs = verifrt.RangeExecs
	if !c.Keep {
		for name := range c.Files {
			os.Remove(name)
		}
		for name := range c.FilesB64 {
			os.Remove(name)
		}
	}
	res.WallNs = int64(time.Since(t0))
	return res
}

func sprint(v any) string {
	switch x := v.(type) {
	case string:
		return x
	case error:
		return x.Error()
	}
	b, _ := json.Marshal(v)
	return string(b)
}

func main() {
	verifWorkerMain()
}
