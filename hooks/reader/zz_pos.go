//go:build verif

package reader

// VerifState exposes the private cursor for the C03 explorer.
func (lr *LexerReader) VerifState() (pos int, n int, history int, unget bool) {
	return lr.pos, len(lr.runes), len(lr.history), lr.ungetFlg
}
