// Package engine builds and drives the two execution engines of DESIGN.md §1.1:
// E-inproc (overlay-built worker processes) and E-real (the unmodified binary).
package engine

import (
	"encoding/base64"
	"unicode/utf8"
	"bufio"
	"bytes"
	"context"
	"crypto/sha256"
	"encoding/hex"
	"encoding/json"
	"fmt"
	"io"
	"os"
	"os/exec"
	"path/filepath"
	"sort"
	"strings"
	"sync"
	"syscall"
	"time"
)

const VerifRoot = "/verif"

var RepoRoot = envOr("VERIF_REPO", "/repo")

func envOr(k, d string) string {
	if v := os.Getenv(k); v != "" {
		return v
	}
	return d
}

// ------------------------------------------------------------------------------------ build

type Bins struct {
	Dir     string
	Real    string // unmodified ti
	Worker  string // overlay-built worker
	Lexmc   string
	Rbs     string // rbs2json (unmodified)
	RbsOv   string // rbs2json with map-order overlay
	C2j     string
	C2jOv   string
	Meta    map[string]any
	TreeSum string
}

func goBin() string { return envOr("VERIF_GO", "go") }

// TreeHash hashes every non-test .go file, go.mod and the hook sources.
func TreeHash(repo string) string {
	h := sha256.New()
	var files []string
	filepath.Walk(repo, func(p string, info os.FileInfo, err error) error {
		if err != nil {
			return nil
		}
		if info.IsDir() {
			n := info.Name()
			if n == ".git" || (n == "test" && filepath.Dir(p) == repo) {
				return filepath.SkipDir
			}
			return nil
		}
		if strings.HasSuffix(p, ".go") || strings.HasSuffix(p, "go.mod") || strings.HasSuffix(p, ".rb") && strings.Contains(p, "/cmd/") {
			files = append(files, p)
		}
		return nil
	})
	filepath.Walk(filepath.Join(VerifRoot, "hooks"), func(p string, info os.FileInfo, err error) error {
		if err == nil && !info.IsDir() {
			files = append(files, p)
		}
		return nil
	})
	files = append(files, filepath.Join(VerifRoot, "cmd/overlaygen/main.go"))
	sort.Strings(files)
	for _, f := range files {
		b, _ := os.ReadFile(f)
		fmt.Fprintf(h, "%s %d\n", f, len(b))
		h.Write(b)
	}
	return hex.EncodeToString(h.Sum(nil))[:20]
}

func run(dir string, env []string, name string, args ...string) (string, error) {
	cmd := exec.Command(name, args...)
	cmd.Dir = dir
	cmd.Env = append(os.Environ(), env...)
	out, err := cmd.CombinedOutput()
	return string(out), err
}

// Build (re)builds both engines from the repository's current working tree; cached by tree hash.
func Build() (*Bins, error) {
	repo := RepoRoot
	sum := TreeHash(repo)
	cache := filepath.Join(VerifRoot, ".cache")
	os.MkdirAll(cache, 0o755)
	dir := filepath.Join(cache, sum)
	b := &Bins{Dir: dir, TreeSum: sum,
		Real: filepath.Join(dir, "ti"), Worker: filepath.Join(dir, "tiworker"), Lexmc: filepath.Join(dir, "lexmc"),
		Rbs: filepath.Join(dir, "rbs2json"), RbsOv: filepath.Join(dir, "rbs2json-ov"),
		C2j: filepath.Join(dir, "c2json"), C2jOv: filepath.Join(dir, "c2json-ov")}

	lock, err := os.OpenFile(filepath.Join(cache, "lock"), os.O_CREATE|os.O_RDWR, 0o644)
	if err != nil {
		return nil, err
	}
	defer lock.Close()
	syscall.Flock(int(lock.Fd()), syscall.LOCK_EX)
	defer syscall.Flock(int(lock.Fd()), syscall.LOCK_UN)

	if _, err := os.Stat(filepath.Join(dir, "ok")); err == nil {
		b.loadMeta()
		holdInUse(dir)
		return b, nil
	}
	// keep at most 6 older cache entries; never remove one that a running check holds
	ents, _ := os.ReadDir(cache)
	type ent struct {
		n string
		t time.Time
	}
	var old []ent
	for _, e := range ents {
		if e.IsDir() {
			if fi, err := e.Info(); err == nil {
				old = append(old, ent{e.Name(), fi.ModTime()})
			}
		}
	}
	sort.Slice(old, func(i, j int) bool { return old[i].t.After(old[j].t) })
	for i, e := range old {
		if i >= 6 && e.n != sum && !inUse(filepath.Join(cache, e.n)) {
			os.RemoveAll(filepath.Join(cache, e.n))
		}
	}
	os.RemoveAll(dir)
	os.MkdirAll(dir, 0o755)
	ov := filepath.Join(dir, "overlay")
	ovgen := filepath.Join(VerifRoot, "bin", "overlaygen")
	if _, err := os.Stat(ovgen); err != nil {
		return nil, fmt.Errorf("bin/overlaygen missing: run ./setup.sh")
	}
	if out, err := run(repo, nil, goBin(), "build", "-o", b.Real, "."); err != nil {
		return nil, fmt.Errorf("build of unmodified ti failed: %v\n%s", err, out)
	}
	if out, err := run(VerifRoot, nil, ovgen, "-repo", repo, "-hooks", filepath.Join(VerifRoot, "hooks"), "-out", ov); err != nil {
		return nil, fmt.Errorf("overlaygen failed: %v\n%s", err, out)
	}
	ovj := filepath.Join(ov, "overlay.json")
	if out, err := run(repo, nil, goBin(), "build", "-tags", "verif", "-overlay", ovj, "-o", b.Worker, "."); err != nil {
		return nil, fmt.Errorf("worker build failed: %v\n%s", err, out)
	}
	if _, err := os.Stat(filepath.Join(VerifRoot, "hooks/lexmc/main.go")); err == nil {
		if out, err := run(repo, nil, goBin(), "build", "-tags", "verif", "-overlay", ovj, "-o", b.Lexmc, "./cmd/zz_lexmc"); err != nil {
			return nil, fmt.Errorf("lexmc build failed: %v\n%s", err, out)
		}
	}
	// converters
	if out, err := run(repo, nil, goBin(), "build", "-o", b.Rbs, "./cmd/rbs2json"); err != nil {
		return nil, fmt.Errorf("rbs2json build failed: %v\n%s", err, out)
	}
	if out, err := run(repo, nil, goBin(), "build", "-o", b.C2j, "./cmd/c2json"); err != nil {
		return nil, fmt.Errorf("c2json build failed: %v\n%s", err, out)
	}
	ov2 := filepath.Join(dir, "overlay-conv")
	if out, err := run(VerifRoot, nil, ovgen, "-repo", repo, "-hooks", filepath.Join(VerifRoot, "hooks"), "-out", ov2, "-roots", "cmd/rbs2json,cmd/c2json", "-conv"); err != nil {
		return nil, fmt.Errorf("overlaygen(conv) failed: %v\n%s", err, out)
	}
	ovj2 := filepath.Join(ov2, "overlay.json")
	if out, err := run(repo, nil, goBin(), "build", "-tags", "verif", "-overlay", ovj2, "-o", b.RbsOv, "./cmd/rbs2json"); err != nil {
		return nil, fmt.Errorf("rbs2json overlay build failed: %v\n%s", err, out)
	}
	if out, err := run(repo, nil, goBin(), "build", "-tags", "verif", "-overlay", ovj2, "-o", b.C2jOv, "./cmd/c2json"); err != nil {
		return nil, fmt.Errorf("c2json overlay build failed: %v\n%s", err, out)
	}
	os.WriteFile(filepath.Join(dir, "ok"), []byte(time.Now().Format(time.RFC3339)), 0o644)
	b.loadMeta()
	holdInUse(dir)
	return b, nil
}

// A process that uses a cache entry keeps a shared lock on <entry>/inuse until it exits; pruning skips
// entries whose lock cannot be taken exclusively (checks for different trees may run concurrently).
var inUseFiles []*os.File

func holdInUse(dir string) {
	f, err := os.OpenFile(filepath.Join(dir, "inuse"), os.O_CREATE|os.O_RDWR, 0o644)
	if err != nil {
		return
	}
	syscall.Flock(int(f.Fd()), syscall.LOCK_SH)
	inUseFiles = append(inUseFiles, f)
	now := time.Now()
	os.Chtimes(dir, now, now)
}

func inUse(dir string) bool {
	f, err := os.OpenFile(filepath.Join(dir, "inuse"), os.O_RDWR, 0o644)
	if err != nil {
		return false
	}
	defer f.Close()
	if syscall.Flock(int(f.Fd()), syscall.LOCK_EX|syscall.LOCK_NB) != nil {
		return true
	}
	syscall.Flock(int(f.Fd()), syscall.LOCK_UN)
	return false
}

func (b *Bins) loadMeta() {
	mb, err := os.ReadFile(filepath.Join(b.Dir, "overlay", "meta.json"))
	if err == nil {
		json.Unmarshal(mb, &b.Meta)
	}
}

// ------------------------------------------------------------------------------------ cases

type Case struct {
	ID     int               `json:"id"`
	Dir    string            `json:"dir"`
	Files  map[string]string `json:"files,omitempty"`
	Argv   []string          `json:"argv"`
	Order  string            `json:"order,omitempty"`
	Dump   string            `json:"dump,omitempty"`
	Budget int64             `json:"budget,omitempty"`
	Keep   bool              `json:"keep,omitempty"`

	Cfg string `json:"-"` // configuration variant name registered with the pool ("" = default)
	Tag any    `json:"-"` // caller's bookkeeping
}

// wireCase moves file contents that are not valid UTF-8 (JSON cannot carry them) to files_b64.
func wireCase(c *Case) any {
	bad := false
	for _, v := range c.Files {
		if !utf8.ValidString(v) {
			bad = true
		}
	}
	if !bad {
		return c
	}
	type wire struct {
		*Case
		Files    map[string]string `json:"files,omitempty"`
		FilesB64 map[string]string `json:"files_b64,omitempty"`
	}
	w := wire{Case: c, Files: map[string]string{}, FilesB64: map[string]string{}}
	for k, v := range c.Files {
		if utf8.ValidString(v) {
			w.Files[k] = v
		} else {
			w.FilesB64[k] = base64.StdEncoding.EncodeToString([]byte(v))
		}
	}
	return w
}

type Result struct {
	ID         int    `json:"id"`
	Exit       int    `json:"exit"`
	Stdout     string `json:"stdout"`
	Stderr     string `json:"stderr,omitempty"`
	CrashValue string `json:"crash,omitempty"`
	CrashSite  string `json:"crash_site,omitempty"`
	CrashStack string `json:"crash_stack,omitempty"`
	Hang       bool   `json:"hang,omitempty"`
	HangSite   string `json:"hang_site,omitempty"`
	Ticks      int64  `json:"ticks"`
	RangeExecs int    `json:"range_execs"`
	DumpBefore string `json:"dump_before,omitempty"`
	DumpAfter  string `json:"dump_after,omitempty"`
	DumpDiff   []string `json:"dump_diff,omitempty"`
	WallNs     int64  `json:"wall_ns"`

	Died     bool   `json:"died,omitempty"`     // worker process died while running this case
	DiedMsg  string `json:"died_msg,omitempty"` // head and tail of its stderr
	DiedKind string `json:"died_kind,omitempty"`
	Deadline bool   `json:"deadline,omitempty"` // driver deadline hit
}

// Abnormal reports crash/hang/death.
func (r *Result) Abnormal() bool { return r.CrashSite != "" || r.Hang || r.Died || r.Deadline }

// ------------------------------------------------------------------------------------ pool

type Pool struct {
	Bins     *Bins
	N        int
	Scratch  string
	cfgs     map[string]string // name -> directory holding *.json
	mu       sync.Mutex
	Deadline time.Duration
	Restarts int
	Executed int64
}

type worker struct {
	idx    int
	cmd    *exec.Cmd
	stdin  io.WriteCloser
	out    *bufio.Reader
	outF   *os.File
	stderr *bytes.Buffer
	dir    string
}

func NewPool(b *Bins, n int) *Pool {
	if n <= 0 {
		n = 16
	}
	scratch, err := os.MkdirTemp(envOr("VERIF_SCRATCH", "/dev/shm"), "timc-")
	if err != nil {
		scratch, _ = os.MkdirTemp("", "timc-")
	}
	return &Pool{Bins: b, N: n, Scratch: scratch, cfgs: map[string]string{}, Deadline: 30 * time.Second}
}

func (p *Pool) Close() { os.RemoveAll(p.Scratch) }

// AddCfg registers a configuration directory (holding the *.json files) under a name.
func (p *Pool) AddCfg(name, dir string) {
	p.mu.Lock()
	p.cfgs[name] = dir
	p.mu.Unlock()
}

// NewCfgDir creates a fresh configuration directory from name->content and registers it.
func (p *Pool) NewCfgDir(name string, files map[string]string) string {
	d := filepath.Join(p.Scratch, "cfg", name)
	os.RemoveAll(d)
	os.MkdirAll(d, 0o755)
	for n, c := range files {
		os.WriteFile(filepath.Join(d, n), []byte(c), 0o644)
	}
	p.AddCfg(name, d)
	return d
}

func (p *Pool) DropCfg(name string) {
	p.mu.Lock()
	d := p.cfgs[name]
	delete(p.cfgs, name)
	p.mu.Unlock()
	if strings.HasPrefix(d, p.Scratch) {
		os.RemoveAll(d)
	}
}

func (p *Pool) caseDir(w *worker, cfg string) string {
	if cfg == "" {
		cfg = "default"
	}
	d := filepath.Join(w.dir, cfg)
	if _, err := os.Lstat(d); err == nil {
		return d
	}
	os.MkdirAll(d, 0o755)
	p.mu.Lock()
	src, ok := p.cfgs[cfg]
	p.mu.Unlock()
	if ok {
		os.Symlink(src, filepath.Join(d, ".ti-config"))
	} else if cfg == "default" {
		os.Symlink(filepath.Join(RepoRoot, "test/.ti-config"), filepath.Join(d, ".ti-config"))
	} else if cfg == "none" {
	} else {
		panic("engine: unknown cfg " + cfg)
	}
	return d
}

func (p *Pool) start(idx int) (*worker, error) {
	w := &worker{idx: idx, stderr: &bytes.Buffer{}}
	w.dir = filepath.Join(p.Scratch, fmt.Sprintf("w%d", idx))
	os.MkdirAll(w.dir, 0o755)
	pr, pw, err := os.Pipe()
	if err != nil {
		return nil, err
	}
	cmd := exec.Command(p.Bins.Worker)
	cmd.Dir = w.dir
	cmd.Env = append(os.Environ(), "GOMAXPROCS=1", "VERIF_CAPDIR="+p.Scratch, "GOTRACEBACK=single")
	cmd.ExtraFiles = []*os.File{pw}
	cmd.Stderr = w.stderr
	cmd.Stdout = w.stderr
	w.stdin, err = cmd.StdinPipe()
	if err != nil {
		return nil, err
	}
	if err := cmd.Start(); err != nil {
		return nil, err
	}
	pw.Close()
	w.cmd = cmd
	w.outF = pr
	w.out = bufio.NewReaderSize(pr, 1<<20)
	return w, nil
}

func (w *worker) kill() {
	if w.cmd != nil && w.cmd.Process != nil {
		w.stdin.Close()
		if os.Getenv("VERIF_PROF") != "" {
			time.Sleep(300 * time.Millisecond)
		}
		w.cmd.Process.Kill()
		w.cmd.Wait()
		w.outF.Close()
	}
}

// exec1 runs one case on w; returns nil result if the worker died.
func (p *Pool) exec1(w *worker, c *Case) (*Result, bool) {
	c.Dir = p.caseDir(w, c.Cfg)
	line, _ := json.Marshal(wireCase(c))
	line = append(line, '\n')
	if _, err := w.stdin.Write(line); err != nil {
		return nil, false
	}
	type rd struct {
		res *Result
		err error
	}
	ch := make(chan rd, 1)
	go func() {
		for {
			l, err := w.out.ReadBytes('\n')
			if err != nil {
				ch <- rd{nil, err}
				return
			}
			if len(l) > 0 && l[0] == '#' {
				continue
			}
			var r Result
			if jerr := json.Unmarshal(l, &r); jerr != nil {
				ch <- rd{nil, jerr}
				return
			}
			ch <- rd{&r, nil}
			return
		}
	}()
	select {
	case x := <-ch:
		if x.err != nil {
			return nil, false
		}
		return x.res, true
	case <-time.After(p.Deadline):
		w.kill()
		<-ch
		return &Result{ID: c.ID, Deadline: true}, false
	}
}

// Run executes all cases from src on the pool; sink is called from a single goroutine.
func (p *Pool) Run(src <-chan *Case, sink func(*Case, *Result)) {
	type pair struct {
		c *Case
		r *Result
	}
	resCh := make(chan pair, 256)
	var wg sync.WaitGroup
	for i := 0; i < p.N; i++ {
		wg.Add(1)
		go func(idx int) {
			defer wg.Done()
			var w *worker
			defer func() {
				if w != nil {
					w.kill()
				}
			}()
			for c := range src {
				if w == nil {
					var err error
					w, err = p.start(idx)
					if err != nil {
						panic("engine: cannot start worker: " + err.Error())
					}
				}
				r, alive := p.exec1(w, c)
				if !alive {
					if r == nil {
						msg := w.stderr.String()
						kind := "other"
						if strings.Contains(msg, "stack overflow") || strings.Contains(msg, "goroutine stack exceeds") {
							kind = "stack-overflow"
						} else if strings.Contains(msg, "out of memory") {
							kind = "oom"
						}
						if len(msg) > 600 {
							msg = msg[:300] + " … " + msg[len(msg)-300:]
						}
						r = &Result{ID: c.ID, Died: true, DiedMsg: msg, DiedKind: kind}
					}
					w.kill()
					w = nil
					p.mu.Lock()
					p.Restarts++
					p.mu.Unlock()
				}
				// remove files a dead worker left behind
				if !alive && !c.Keep {
					for n := range c.Files {
						os.Remove(filepath.Join(c.Dir, n))
					}
				}
				resCh <- pair{c, r}
			}
		}(i)
	}
	go func() { wg.Wait(); close(resCh) }()
	for pr := range resCh {
		p.Executed++
		sink(pr.c, pr.r)
	}
}

// RunAll is Run over a slice, returning results indexed like the input.
func (p *Pool) RunAll(cases []*Case) []*Result {
	res := make([]*Result, len(cases))
	src := make(chan *Case, 64)
	go func() {
		for i, c := range cases {
			c.ID = i
			src <- c
		}
		close(src)
	}()
	p.Run(src, func(c *Case, r *Result) { res[c.ID] = r })
	return res
}

// ------------------------------------------------------------------------------------ E-real

type RealResult struct {
	Stdout   string
	Stderr   string
	Exit     int
	TimedOut bool // our own outer limit (not ti's watchdog)
}

// RunReal runs the unmodified binary in a fresh scratch directory.
func (p *Pool) RunReal(cfg string, files map[string]string, argv []string) *RealResult {
	return p.RunRealBin(p.Bins.Real, cfg, files, argv)
}

func (p *Pool) RunRealBin(bin, cfg string, files map[string]string, argv []string) *RealResult {
	d, _ := os.MkdirTemp(p.Scratch, "real-")
	defer os.RemoveAll(d)
	if cfg == "" {
		cfg = "default"
	}
	p.mu.Lock()
	src, ok := p.cfgs[cfg]
	p.mu.Unlock()
	if ok {
		os.Symlink(src, filepath.Join(d, ".ti-config"))
	} else if cfg == "default" {
		os.Symlink(filepath.Join(RepoRoot, "test/.ti-config"), filepath.Join(d, ".ti-config"))
	}
	for n, c := range files {
		if i := strings.LastIndexByte(n, '/'); i > 0 {
			os.MkdirAll(filepath.Join(d, n[:i]), 0o755)
		}
		os.WriteFile(filepath.Join(d, n), []byte(c), 0o644)
	}
	ctx, cancel := context.WithTimeout(context.Background(), 20*time.Second)
	defer cancel()
	cmd := exec.CommandContext(ctx, bin, argv...)
	cmd.Dir = d
	var so, se bytes.Buffer
	cmd.Stdout, cmd.Stderr = &so, &se
	err := cmd.Run()
	rr := &RealResult{Stdout: so.String(), Stderr: se.String()}
	if ctx.Err() != nil {
		rr.TimedOut = true
	}
	if err != nil {
		if ee, ok := err.(*exec.ExitError); ok {
			rr.Exit = ee.ExitCode()
		} else {
			rr.Exit = -1
		}
	}
	return rr
}
