// Package ref holds the boring reference models (DESIGN.md §4). They read the same JSON files ti
// loads and never ti's internals; they answer only on the certain part of their domain.
package ref

import (
	"encoding/json"
	"sort"
	"strings"
)

type Arg struct {
	Types    []string
	Key      string
	Asterisk bool
	Default  bool
	Mixed    bool
}

type Method struct {
	Name        string
	Args        []Arg
	Ret         []string
	Conditional bool
	Destructive bool
	BlockParams []string
	Static      bool
}

type Class struct {
	Frame, Name string
	Extends     []string
	Inst        map[string][]*Method
	Stat        map[string][]*Method
}

type Config struct {
	Classes map[string]*Class // by short name (Builtin frame only)
}

type rawType []string

func (t *rawType) UnmarshalJSON(b []byte) error {
	var s string
	if json.Unmarshal(b, &s) == nil {
		*t = []string{s}
		return nil
	}
	var a []string
	if err := json.Unmarshal(b, &a); err != nil {
		return err
	}
	*t = a
	return nil
}

// Load parses configuration files (name -> JSON text).
func Load(files map[string]string) *Config {
	cfg := &Config{Classes: map[string]*Class{}}
	var names []string
	for n := range files {
		names = append(names, n)
	}
	sort.Strings(names)
	for _, n := range names {
		var c struct {
			Frame   string   `json:"frame"`
			Class   string   `json:"class"`
			Extends []string `json:"extends"`
			IM      []rawM   `json:"instance_methods"`
			CM      []rawM   `json:"class_methods"`
		}
		if json.Unmarshal([]byte(files[n]), &c) != nil || c.Frame != "Builtin" {
			continue
		}
		cl := cfg.Classes[c.Class]
		if cl == nil {
			cl = &Class{Frame: c.Frame, Name: c.Class, Inst: map[string][]*Method{}, Stat: map[string][]*Method{}}
			cfg.Classes[c.Class] = cl
		}
		cl.Extends = append(cl.Extends, c.Extends...)
		for _, m := range c.IM {
			cl.Inst[m.Name] = append(cl.Inst[m.Name], m.conv(false))
		}
		for _, m := range c.CM {
			cl.Stat[m.Name] = append(cl.Stat[m.Name], m.conv(true))
		}
	}
	return cfg
}

type rawM struct {
	Name      string `json:"name"`
	Arguments []struct {
		Type       rawType `json:"type"`
		Key        string  `json:"key"`
		IsAsterisk bool    `json:"is_asterisk"`
		IsDefault  bool    `json:"is_default"`
	} `json:"arguments"`
	ReturnType struct {
		Type          rawType `json:"type"`
		IsConditional bool    `json:"is_conditional"`
		IsDestructive bool    `json:"is_destructive"`
	} `json:"return_type"`
	BlockParameters []string `json:"block_parameters"`
}

func (m rawM) conv(static bool) *Method {
	o := &Method{Name: m.Name, Ret: m.ReturnType.Type, Conditional: m.ReturnType.IsConditional, Destructive: m.ReturnType.IsDestructive,
		BlockParams: m.BlockParameters, Static: static}
	for _, a := range m.Arguments {
		arg := Arg{Types: a.Type, Key: a.Key, Asterisk: a.IsAsterisk, Default: a.IsDefault}
		if len(arg.Types) == 1 {
			t := arg.Types[0]
			switch {
			case strings.HasPrefix(t, "**"):
				arg.Asterisk = true
				arg.Types = []string{t[2:]}
			case strings.HasPrefix(t, "*") && !strings.ContainsAny(t, "|["):
				arg.Asterisk = true
				arg.Types = []string{t[1:]}
			case strings.HasPrefix(t, "?") && !strings.ContainsAny(t, "|["):
				arg.Default = true
				arg.Types = []string{t[1:]}
			}
		}
		nDef := 0
		for _, t := range arg.Types {
			if strings.HasPrefix(t, "Default") {
				nDef++
			}
		}
		if nDef > 0 && nDef == len(arg.Types) {
			arg.Default = true
		} else if nDef > 0 {
			arg.Mixed = true // e.g. ["String","DefaultInt"]: the documentation does not say; out of the model's domain
		}
		o.Args = append(o.Args, arg)
	}
	return o
}

// Lookup returns the overloads of an instance method visible on class cls (own, extends chain,
// Object, Kernel), or nil.
func (c *Config) Lookup(cls, name string) []*Method {
	seen := map[string]bool{}
	var walk func(k string) []*Method
	walk = func(k string) []*Method {
		if seen[k] {
			return nil
		}
		seen[k] = true
		cl := c.Classes[k]
		if cl == nil {
			return nil
		}
		if ms := cl.Inst[name]; len(ms) > 0 {
			return ms
		}
		for _, e := range cl.Extends {
			if ms := walk(e); ms != nil {
				return ms
			}
		}
		return nil
	}
	if ms := walk(cls); ms != nil {
		return ms
	}
	if cls != "" && cls != "Kernel" {
		if ms := walk(""); ms != nil { // Object
			return ms
		}
		return walk("Kernel")
	}
	return nil
}

// LookupStatic returns the overloads of a class method visible on class cls (own, then extends chain).
func (c *Config) LookupStatic(cls, name string) []*Method {
	seen := map[string]bool{}
	var walk func(k string) []*Method
	walk = func(k string) []*Method {
		if seen[k] {
			return nil
		}
		seen[k] = true
		cl := c.Classes[k]
		if cl == nil {
			return nil
		}
		if ms := cl.Stat[name]; len(ms) > 0 {
			return ms
		}
		for _, e := range cl.Extends {
			if ms := walk(e); ms != nil {
				return ms
			}
		}
		return nil
	}
	return walk(cls)
}

// ---- acceptance ---------------------------------------------------------------------------

type Verdict int

const (
	Unknown Verdict = iota
	Fits
	Fails
)

// expand maps a declared type name to (classes, any, uncertain).
func expand(t string) (classes []string, any bool, uncertain bool) {
	switch t {
	case "Untyped", "DefaultUntyped", "DefaultOptionalUntyped":
		return nil, true, false
	case "Int", "Integer", "DefaultInt":
		return []string{"Integer"}, false, false
	case "OptionalInt":
		return []string{"Integer", "NilClass"}, false, false
	case "String", "DefaultString":
		return []string{"String"}, false, false
	case "OptionalString":
		return []string{"String", "NilClass"}, false, false
	case "Float", "DefaultFloat":
		return []string{"Float"}, false, false
	case "OptionalFloat":
		return []string{"Float", "NilClass"}, false, false
	case "Number":
		return []string{"Integer", "Float"}, false, false
	case "Symbol", "DefaultSymbol":
		return []string{"Symbol"}, false, false
	case "NilClass":
		return []string{"NilClass"}, false, false
	case "Bool", "DefaultBool":
		return []string{"Bool"}, false, false
	case "Array", "DefaultArray":
		return []string{"Array"}, false, false
	case "Hash":
		return []string{"Hash"}, false, false
	case "Range":
		return []string{"Range"}, false, false
	case "StringArray", "IntArray", "FloatArray":
		return []string{"Array"}, false, true // element types: not modelled
	}
	if strings.HasPrefix(t, "[") {
		return []string{"Array"}, false, true
	}
	if strings.Contains(t, "|") {
		var cs []string
		for _, p := range strings.Split(t, "|") {
			c, a, u := expand(strings.TrimSpace(p))
			if a {
				return nil, true, false
			}
			uncertain = uncertain || u
			cs = append(cs, c...)
		}
		return cs, false, uncertain
	}
	if strings.HasPrefix(t, "?") {
		c, a, u := expand(t[1:])
		return append(c, "NilClass"), a, u
	}
	switch t {
	case "Unify", "DefaultUnify", "OptionalUnify", "Argument", "UnifyArgument", "Item", "Owner", "Self", "Block", "DefaultBlock", "Proc",
		"KeyArray", "KeyValueArray", "SelfArray", "BlockResultArray", "Flatten", "SymbolToMethod", "SymbolToMethods", "IntInt":
		return nil, false, true
	}
	return []string{t}, false, false // an object class
}

// acceptArg: argClass may be a union written `A|B`: it fits when every variant fits, fails when
// every variant fails, and is unknown otherwise.
func acceptArg(types []string, argClass string) Verdict {
	if strings.Contains(argClass, "|") {
		nFit, nFail := 0, 0
		parts := strings.Split(argClass, "|")
		for _, p := range parts {
			switch acceptArg(types, p) {
			case Fits:
				nFit++
			case Fails:
				nFail++
			}
		}
		switch {
		case nFit == len(parts):
			return Fits
		case nFail == len(parts):
			return Fails
		}
		return Unknown
	}
	if len(types) == 0 {
		return Unknown
	}
	uncertainAny := false
	for _, t := range types {
		cs, any, unc := expand(t)
		if any {
			return Fits
		}
		for _, c := range cs {
			if c == argClass {
				if unc {
					return Unknown // class matches, element types not modelled
				}
				return Fits
			}
		}
		if unc && len(cs) == 0 {
			uncertainAny = true
		}
	}
	if uncertainAny {
		return Unknown
	}
	// numeric widening is not modelled either way
	if argClass == "Integer" {
		for _, t := range types {
			cs, _, _ := expand(t)
			for _, c := range cs {
				if c == "Float" {
					return Unknown
				}
			}
		}
	}
	return Fails
}

// Accept decides whether a call with positional arguments of the given classes certainly fits /
// certainly fails one declaration. reason names the failing aspect.
func (m *Method) Accept(args []string) (v Verdict, reason string) {
	req, opt := 0, 0
	rest := -1
	seenDefault := false
	for i, a := range m.Args {
		if a.Key != "" {
			return Unknown, "keyword"
		}
		if a.Mixed {
			return Unknown, "mixed-default"
		}
		switch {
		case a.Asterisk:
			if rest >= 0 {
				return Unknown, "two-rest"
			}
			rest = i
		case a.Default:
			if rest >= 0 {
				return Unknown, "optional-after-rest"
			}
			opt++
			seenDefault = true
		default:
			if seenDefault || rest >= 0 {
				return Unknown, "required-after-optional"
			}
			req++
		}
	}
	if len(m.BlockParams) > 0 {
		return Unknown, "block"
	}
	n := len(args)
	if n < req {
		return Fails, "arity-few"
	}
	if rest < 0 && n > req+opt {
		return Fails, "arity-many"
	}
	res := Fits
	for i, ac := range args {
		var p Arg
		if i < req+opt {
			// positional parameters in declaration order, skipping the rest parameter
			k := 0
			for _, a := range m.Args {
				if a.Asterisk {
					continue
				}
				if k == i {
					p = a
					break
				}
				k++
			}
		} else {
			p = m.Args[rest]
		}
		switch acceptArg(p.Types, ac) {
		case Fails:
			if i >= req+opt {
				return Fails, "rest-argtype"
			}
			return Fails, "argtype"
		case Unknown:
			res = Unknown
		}
	}
	return res, ""
}

// AcceptAny combines the overloads: fits if one certainly fits, fails if all certainly fail.
func AcceptAny(ms []*Method, args []string) (Verdict, string, *Method) {
	allFail := true
	reason := ""
	for _, m := range ms {
		v, why := m.Accept(args)
		if v == Fits {
			return Fits, "", m
		}
		if v != Fails {
			allFail = false
		} else if reason == "" {
			reason = why
		}
	}
	if allFail && len(ms) > 0 {
		return Fails, reason, nil
	}
	return Unknown, "", nil
}

// ---- return types -------------------------------------------------------------------------

// Ret resolves the declared return type of m for a receiver rendered as recv (e.g. `Array<Integer String>`),
// as a ti-style rendering; ok=false when the model does not cover the declaration.
func (m *Method) RetType(recvClass string, recvElems []string) (rendering string, ok bool) {
	if m.Conditional || len(m.Ret) == 0 {
		return "", false
	}
	var parts []string
	for _, t := range m.Ret {
		r, k := retOne(t, recvClass, recvElems)
		if !k {
			return "", false
		}
		parts = append(parts, r...)
	}
	// ti keeps one Array variant: several array alternatives are merged into one array of all element types
	var elems []string
	nArr := 0
	for _, p := range parts {
		if strings.HasPrefix(p, "Array<") && !strings.Contains(p[6:], "<") {
			nArr++
			elems = append(elems, strings.Fields(p[6:len(p)-1])...)
		}
	}
	if nArr > 1 {
		var rest []string
		for _, p := range parts {
			if !(strings.HasPrefix(p, "Array<") && !strings.Contains(p[6:], "<")) {
				rest = append(rest, p)
			}
		}
		se := map[string]bool{}
		var ue []string
		for _, e := range elems {
			if !se[e] {
				se[e] = true
				ue = append(ue, e)
			}
		}
		parts = append([]string{"Array<" + strings.Join(ue, " ") + ">"}, rest...)
	}
	// dedupe, keep order
	seen := map[string]bool{}
	var u []string
	for _, p := range parts {
		if !seen[p] {
			seen[p] = true
			u = append(u, p)
		}
	}
	if len(u) == 1 {
		return u[0], true
	}
	return "Union<" + strings.Join(u, " ") + ">", true
}

func retOne(t, recvClass string, elems []string) ([]string, bool) {
	switch t {
	case "NilClass", "Bool", "String", "Float", "Symbol", "Hash", "Range":
		return []string{t}, true
	case "Int", "Integer":
		return []string{"Integer"}, true
	case "OptionalInt":
		return []string{"Integer", "NilClass"}, true
	case "OptionalString":
		return []string{"String", "NilClass"}, true
	case "OptionalFloat":
		return []string{"Float", "NilClass"}, true
	case "Number":
		return []string{"Integer", "Float"}, true
	case "StringArray", "[String]":
		return []string{"Array<String>"}, true
	case "IntArray", "[Int]", "[Integer]":
		return []string{"Array<Integer>"}, true
	case "FloatArray", "[Float]":
		return []string{"Array<Float>"}, true
	case "[Symbol]":
		return []string{"Array<Symbol>"}, true
	case "Self":
		if recvClass == "Array" {
			if len(elems) == 0 {
				return []string{"Array<untyped>"}, true
			}
			return []string{"Array<" + strings.Join(elems, " ") + ">"}, true
		}
		if recvClass == "" {
			return nil, false
		}
		return []string{recvClass}, true
	case "Unify":
		if recvClass == "Array" && len(elems) > 0 {
			return append([]string{}, elems...), true
		}
		return nil, false
	case "OptionalUnify":
		if recvClass == "Array" && len(elems) > 0 {
			return append(append([]string{}, elems...), "NilClass"), true
		}
		return nil, false
	}
	if strings.Contains(t, "|") && !strings.HasPrefix(t, "[") {
		var out []string
		for _, p := range strings.Split(t, "|") {
			r, ok := retOne(strings.TrimSpace(p), recvClass, elems)
			if !ok {
				return nil, false
			}
			out = append(out, r...)
		}
		return out, true
	}
	if strings.HasPrefix(t, "?") {
		r, ok := retOne(t[1:], recvClass, elems)
		if !ok {
			return nil, false
		}
		return append(r, "NilClass"), true
	}
	return nil, false
}
