// Package gen holds the deterministic enumerators (DESIGN.md §3).
package gen

import (
	"os"
	"path/filepath"
	"regexp"
	"sort"
	"strings"
)

type Prog struct {
	Name string   // file name as passed to ti, e.g. ./0081a0e2.rb
	Src  string   // content
	Args []string // extra flags used by the golden test
}

var cmdRe = regexp.MustCompile(`exec\.Command\("\.\./ti",\s*([^)]*)\)`)
var strRe = regexp.MustCompile(`"([^"]*)"`)

// Corpus loads /repo/test/*.rb together with the flags their _test.go uses.
func Corpus(repo string) []Prog {
	dir := filepath.Join(repo, "test")
	ents, _ := os.ReadDir(dir)
	var out []Prog
	for _, e := range ents {
		n := e.Name()
		if !strings.HasSuffix(n, "_test.go") {
			continue
		}
		b, err := os.ReadFile(filepath.Join(dir, n))
		if err != nil {
			continue
		}
		m := cmdRe.FindStringSubmatch(string(b))
		if m == nil {
			continue
		}
		var args []string
		for _, s := range strRe.FindAllStringSubmatch(m[1], -1) {
			args = append(args, s[1])
		}
		if len(args) == 0 {
			continue
		}
		src, err := os.ReadFile(filepath.Join(dir, args[0]))
		if err != nil {
			continue
		}
		out = append(out, Prog{Name: args[0], Src: string(src), Args: args[1:]})
	}
	sort.Slice(out, func(i, j int) bool { return out[i].Name < out[j].Name })
	return out
}

// SortBySize returns the programs ordered smallest first (stable by name).
func SortBySize(ps []Prog) []Prog {
	q := append([]Prog{}, ps...)
	sort.SliceStable(q, func(i, j int) bool { return len(q[i].Src) < len(q[j].Src) })
	return q
}

// ------------------------------------------------------------------------------------------
// A deliberately simple tokenizer used only to choose deviation points. It never needs to
// agree with ti's lexer: a "token" is a maximal run of identifier characters, a number, a quoted
// string without embedded newline, a run of operator characters of the same kind, or a single
// other character. Whitespace is kept as separate tokens so that Join(tokens) == source.

type Tok struct {
	Text  string
	Space bool // whitespace (incl. newline) token
}

func isIdent(c byte) bool {
	return c == '_' || c == '@' || c == '$' || c >= '0' && c <= '9' || c >= 'a' && c <= 'z' || c >= 'A' && c <= 'Z' || c >= 0x80
}

func Tokenize(src string) []Tok {
	var out []Tok
	i := 0
	for i < len(src) {
		c := src[i]
		switch {
		case c == ' ' || c == '\t' || c == '\n' || c == '\r':
			j := i
			for j < len(src) && (src[j] == ' ' || src[j] == '\t' || src[j] == '\n' || src[j] == '\r') {
				j++
			}
			out = append(out, Tok{src[i:j], true})
			i = j
		case isIdent(c):
			j := i
			for j < len(src) && (isIdent(src[j]) || (src[j] == '?' || src[j] == '!') && j+1 < len(src) && src[j+1] != '=') {
				j++
			}
			out = append(out, Tok{src[i:j], false})
			i = j
		case c == '"' || c == '\'':
			j := i + 1
			for j < len(src) && src[j] != c && src[j] != '\n' {
				if src[j] == '\\' && j+1 < len(src) {
					j++
				}
				j++
			}
			if j < len(src) && src[j] == c {
				j++
				out = append(out, Tok{src[i:j], false})
				i = j
			} else {
				out = append(out, Tok{src[i : i+1], false})
				i++
			}
		case c == '#' && (i == 0 || src[i-1] != '"'):
			// comment to end of line is one token (unless it looks like interpolation)
			if i+1 < len(src) && src[i+1] == '{' {
				out = append(out, Tok{src[i : i+1], false})
				i++
				break
			}
			j := i
			for j < len(src) && src[j] != '\n' {
				j++
			}
			out = append(out, Tok{src[i:j], false})
			i = j
		default:
			// two-character operators
			if i+1 < len(src) {
				two := src[i : i+2]
				switch two {
				case "==", "!=", "<=", ">=", "&&", "||", "<<", ">>", "=>", "->", "::", "..", "+=", "-=", "*=", "/=", "&.", "**", "=~":
					out = append(out, Tok{two, false})
					i += 2
					continue
				}
			}
			out = append(out, Tok{src[i : i+1], false})
			i++
		}
	}
	return out
}

func Join(ts []Tok) string {
	var sb strings.Builder
	for _, t := range ts {
		sb.WriteString(t.Text)
	}
	return sb.String()
}

// NonSpaceIdx returns the indices of the non-whitespace tokens.
func NonSpaceIdx(ts []Tok) []int {
	var idx []int
	for i, t := range ts {
		if !t.Space {
			idx = append(idx, i)
		}
	}
	return idx
}

// ------------------------------------------------------------------------------------------
// Alphabets

// SigmaT is the token alphabet of DESIGN.md §3 (each rendered with a trailing space unless glued).
var SigmaT = []string{
	"x ", "y ", "A ", "B ", "CONST ", "1 ", "1.5 ", "\"s\" ", "'s' ", ":s ", "k: ", "nil ", "true ", "self ", "@i ", "$g ",
	"*a ", "**h ", "&b ", "= ", "== ", "=> ", ".", "&.", ", ", "(", " (", ") ", "[", " [", "] ", "{ ", "} ", "| ", "\n", "; ",
	"+ ", "- ", "* ", "< ", "<< ", "? ", ": ", ".. ", "::", "! ", "&& ", "|| ", "def ", "end ", "class ", "module ", "if ",
	"elsif ", "else ", "unless ", "case ", "when ", "in ", "while ", "for ", "do ", "return ", "yield ", "begin ", "rescue ",
	"then ", "break ", "private ", "attr_reader ", "include ", "p ", "dbtp ", "push ", "replace ", "merge ", "each ", "new ",
	"is_a? ", "nil? ", "<<EOS\n", "%w", "#{", "=begin\n", "` ", "# c", "\"s", "% ", "> ", "a:\"b", "\"q\nr\" ",
}

// SigmaHot: tokens that open/close constructs (used for deeper strings and insert/replace deviations).
var SigmaHot = []string{
	"x ", "A ", "1 ", "\"s\" ", ":s ", "k: ", "= ", ".", ", ", "(", ") ", " [", "] ", "{ ", "} ", "| ", "\n",
	"def ", "end ", "class ", "if ", "else ", "case ", "in ", "do ", "< ", "self ", "while ", "each ", "new ", "\"q\nr\" ",
}
