package gen

import (
	"encoding/json"
	"os"
	"path/filepath"
	"sort"
	"strings"
)

// CoreNames are the 21 core files of the shipped test configuration ("cfg-21" in DESIGN.md).
var CoreNames = []string{"array", "bool", "class", "enumerable", "false", "float", "hash", "identifier", "integer", "kernel", "math",
	"nil", "object", "proc", "range", "runtime_error", "string", "symbol", "true", "untyped", "test"}

// ShippedConfig reads every JSON file of /repo/test/.ti-config.
func ShippedConfig(repo string) map[string]string {
	dir := filepath.Join(repo, "test/.ti-config")
	out := map[string]string{}
	ents, _ := os.ReadDir(dir)
	for _, e := range ents {
		if strings.HasSuffix(e.Name(), ".json") {
			b, err := os.ReadFile(filepath.Join(dir, e.Name()))
			if err == nil {
				out[e.Name()] = string(b)
			}
		}
	}
	return out
}

// CoreConfig is the subset of the shipped configuration named by CoreNames.
func CoreConfig(repo string) map[string]string {
	all := ShippedConfig(repo)
	out := map[string]string{}
	for _, n := range CoreNames {
		if c, ok := all[n+".json"]; ok {
			out[n+".json"] = c
		}
	}
	return out
}

// ---- configuration builder (CG) -----------------------------------------------------------

type CfgArg struct {
	Type       any    `json:"type,omitempty"` // []string or string (compact notation)
	Key        string `json:"key,omitempty"`
	IsAsterisk bool   `json:"is_asterisk,omitempty"`
	IsDefault  bool   `json:"is_default,omitempty"`
}

type CfgRet struct {
	Type          any  `json:"type"`
	IsConditional bool `json:"is_conditional,omitempty"`
	IsDestructive bool `json:"is_destructive,omitempty"`
}

type CfgMethod struct {
	Name            string   `json:"name"`
	Arguments       []CfgArg `json:"arguments"`
	ReturnType      CfgRet   `json:"return_type"`
	BlockParameters []string `json:"block_parameters,omitempty"`
	Document        string   `json:"document,omitempty"`
}

type CfgConst struct {
	Name       string `json:"name"`
	ReturnType CfgRet `json:"return_type"`
}

type CfgClass struct {
	Frame           string      `json:"frame"`
	Class           string      `json:"class"`
	Extends         []string    `json:"extends,omitempty"`
	InstanceMethods []CfgMethod `json:"instance_methods"`
	ClassMethods    []CfgMethod `json:"class_methods"`
	Constants       []CfgConst  `json:"constants,omitempty"`
	// instance_properties (attribute-like members with an access mode) and instance_variables
	InstanceProperties []CfgProp `json:"instance_properties,omitempty"`
	InstanceVariables  []CfgProp `json:"instance_variables,omitempty"`
}

// CfgProp is an instance property (`access`: "reader" or "accessor") or an instance variable (no access).
type CfgProp struct {
	Name   string   `json:"name"`
	Type   []string `json:"type"`
	Access string   `json:"access,omitempty"`
}

func (c CfgClass) JSON() string {
	if c.InstanceMethods == nil {
		c.InstanceMethods = []CfgMethod{}
	}
	if c.ClassMethods == nil {
		c.ClassMethods = []CfgMethod{}
	}
	b, _ := json.MarshalIndent(c, "", " ")
	return string(b)
}

func Merge(ms ...map[string]string) map[string]string {
	out := map[string]string{}
	for _, m := range ms {
		for k, v := range m {
			out[k] = v
		}
	}
	return out
}

func SortedKeys(m map[string]string) []string {
	var ks []string
	for k := range m {
		ks = append(ks, k)
	}
	sort.Strings(ks)
	return ks
}

// Permutations of 0..n-1 in lexicographic order.
func Permutations(n int) [][]int {
	var out [][]int
	p := make([]int, n)
	for i := range p {
		p[i] = i
	}
	var rec func(k int)
	rec = func(k int) {
		if k == n {
			out = append(out, append([]int{}, p...))
			return
		}
		for i := k; i < n; i++ {
			p[k], p[i] = p[i], p[k]
			rec(k + 1)
			p[k], p[i] = p[i], p[k]
		}
	}
	rec(0)
	sort.Slice(out, func(i, j int) bool {
		for k := range out[i] {
			if out[i][k] != out[j][k] {
				return out[i][k] < out[j][k]
			}
		}
		return false
	})
	return out
}
