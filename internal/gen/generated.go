package gen

import "fmt"

// Generated returns the deterministic base set of generated programs used by the metamorphic checks
// in addition to the corpus: a cross product of small statement templates placed in every body kind
// (top level, def, class/def, if/else, case/in, case/when, block, while, begin/rescue).
func Generated() []Prog {
	stmts := []string{
		"a = 1\na.foo",
		"s = \"str\"\nt = s.upcase\nt.bar(1)",
		"arr = [1, 2]\narr.push(\"s\")\narr.first.zork",
		"h = {k: 1}\nv = h[:k]\nv.nope",
		"u = true ? 1 : \"s\"\nu.upcase",
		"n = nil\nn.size",
		"f = 1.5\ng = f + 1\ng.quux",
	}
	wrap := []struct {
		name string
		f    func(body string) string
	}{
		{"top", func(b string) string { return b + "\n" }},
		{"def", func(b string) string { return "def m1(x)\n" + indent(b, 1) + "\n  x\nend\nm1(1)\n" }},
		{"class", func(b string) string {
			return "class Widget\n  def initialize(v)\n    @v = v\n  end\n\n  def run\n" + indent(b, 2) + "\n    @v\n  end\nend\nk = Widget.new(1)\nk.run\nk.missing\n"
		}},
		{"ifelse", func(b string) string {
			return "c = 1\nif c == 1\n" + indent(b, 1) + "\nelsif c == 2\n  c.zip\nelse\n" + indent(b, 1) + "\nend\nc.after\n"
		}},
		{"unless", func(b string) string { return "c = nil\nunless c.nil?\n" + indent(b, 1) + "\nend\nc.after\n" }},
		{"casein", func(b string) string {
			return "c = 1\ncase c\nin Integer\n" + indent(b, 1) + "\nin String\n  c.upcase\nelse\n  c.other\nend\nc.after\n"
		}},
		{"casewhen", func(b string) string {
			return "c = \"s\"\ncase c\nwhen \"a\"\n" + indent(b, 1) + "\nwhen \"b\"\n  c.foo\nelse\n  c.other\nend\nc.after\n"
		}},
		{"block", func(b string) string { return "xs = [1, 2]\nxs.each do |e|\n" + indent(b, 1) + "\n  e.blk\nend\nxs.after\n" }},
		{"while", func(b string) string { return "i = 0\nwhile i < 3\n" + indent(b, 1) + "\n  i = i + 1\nend\ni.after\n" }},
		{"begin", func(b string) string { return "begin\n" + indent(b, 1) + "\nrescue => e\n  e.oops\nend\n1.after\n" }},
	}
	var out []Prog
	// hand-written shapes the templates below do not produce: attribute setters/getters, class methods,
	// modules, two narrowed variables with else, keyword arguments, nested classes
	extra := []string{
		"class Gadget\n  def capacity=(v)\n    @raw = v\n  end\nend\nk = Gadget.new\nk.capacity = 1\nk.capacity\nk.capacity.foo\n",
		"class Gizmo\n  def volume= v\n    '1'\n  end\nend\ng = Gizmo.new\ndbtp g.volume = 1\n",
		"class Sensor\n  def level=(v)\n    @level = v\n  end\n\n  def level\n    @level\n  end\nend\nk = Sensor.new\nk.level = \"s\"\nk.level.foo\n",
		"class Factory\n  def self.build(a)\n    a\n  end\n\n  def run(b)\n    b.upcase\n  end\nend\nv = Factory.build(1)\nv.zork\nFactory.new.run(1)\n",
		"module Mixhelp\n  def helper\n    1\n  end\nend\nclass Robot\n  include Mixhelp\n  def go\n    helper.zork\n  end\nend\nRobot.new.go\nRobot.new.nothing\n",
		"va = true ? 1 : nil\nvb = true ? 1.5 : \"s\"\nif va.is_a?(Integer) && vb.is_a?(Float)\n  dbtp va\n  dbtp vb\nelse\n  dbtp va\n  dbtp vb\nend\ndbtp va\ndbtp vb\n",
		"va = true ? 1 : nil\nvb = true ? \"s\" : nil\nunless va.nil? && vb.nil?\n  dbtp va\n  dbtp vb\nelse\n  dbtp va\n  dbtp vb\nend\n",
		"def kw(p0, ka:, kb: 2)\n  dbtp ka\n  kb\nend\nr1 = kw(1, ka: \"s\", kb: 3)\nr2 = kw(1, kb: 3, ka: 1.5)\nr2.zork\n",
		"module Outer\n  class Inner\n    def val\n      1\n    end\n  end\nend\nclass Inner\n  def val\n    \"s\"\n  end\nend\no = Outer::Inner.new\ndbtp o.val\ni = Inner.new\ndbtp i.val\n",
		"class Animal\n  def shared\n    1\n  end\n\n  private\n\n  def hidden\n    2\n  end\nend\nclass Puppy < Animal\n  def use\n    hidden\n    shared\n  end\nend\nc = Puppy.new\nc.use\nc.hidden\nc.shared.zork\n",
	}
	extra = append(extra,
		// cyclic declarations (refused with a diagnostic): mutual include, class/module cycle, superclass cycle
		"module Mone\n  include Mtwo\n  def aa\n    @w\n  end\nend\nmodule Mtwo\n  include Mone\n  def bb\n    1\n  end\nend\nclass Cyc\n  include Mone\nend\nc = Cyc.new\nc.aa\nc.zork\n",
		"class Cya\n  include Mcy\n  def aa\n    1\n  end\nend\nmodule Mcy\n  include Cya\n  def bb\n    @q\n  end\nend\nCya.new.bb\nCya.new.zork\n",
		"class Cyx < Cyy\n  def aa\n    1\n  end\nend\nclass Cyy < Cyx\nend\nCyx.new.aa\nCyy.new.zork\n",
		// attribute macros, constants, keyword arguments, ranges in when, multiple assignment, ternaries, string ops
		"class Account\n  attr_reader :owner\n  attr_accessor :balance\n\n  LIMIT = 100\n\n  def initialize(owner, balance)\n    @owner = owner\n    @balance = balance\n  end\n\n  def over?\n    @balance > LIMIT\n  end\nend\nacc = Account.new(\"ann\", 10)\nacc.balance = 20\ndbtp acc.owner\ndbtp acc.balance\ndbtp acc.over?\nacc.owner = \"bob\"\nacc.missing_attr\n",
		"def area(width:, height: 2)\n  width * height\nend\nar1 = area(width: 3)\nar2 = area(height: 4, width: 1.5)\ndbtp ar1\ndbtp ar2\narea(height: 1)\narea(width: 1, depth: 2)\n",
		"grade = 85\nlabel = case grade\n  when 90..100\n    \"a\"\n  when 80..89\n    \"b\"\n  else\n    nil\n  end\ndbtp label\nlabel.upcase\nfirst, second = 1, \"two\"\ndbtp first\ndbtp second\nthird = first > 0 ? second : nil\ndbtp third\n",
		"name = \"ann\"\ngreeting = \"hi \" + name\ndbtp greeting\ndbtp greeting.length\nparts = greeting.split(\" \")\ndbtp parts\nparts.each do |pt|\n  dbtp pt\n  pt.nope\nend\nsym = name.to_sym\ndbtp sym\ncount = parts.length + 1\ndbtp count\ncount.upcase\n",
		"module Shapes\n  PI2 = 6.28\n\n  class Circle\n    def initialize(r)\n      @r = r\n    end\n\n    def circumference\n      @r * PI2\n    end\n  end\n\n  def self.unit\n    Circle.new(1)\n  end\nend\nc1 = Shapes::Circle.new(2)\ndbtp c1.circumference\nu1 = Shapes.unit\ndbtp u1\nc1.diameter\n",
		// string literals between index brackets on untyped / union / unknown receivers
		"def fetch_it(params, key)\n  v = params[\"user name\"]\n  w = params[key + \" suffix\"]\n  w\nend\nfetch_it(1, \"k\")\nun = true ? [1] : {b: 2}\nun[\"idx key\"]\nun.after_idx\nzork_undefined[\"str key\"]\n1.after_index\n",
		// blocks whose parameters are observable, on a union receiver, on merge!, and after an undefined method
		"cc = 1\nur = cc == 1 ? [1, 2] : {a: \"s\"}\ncc.to_s\nur.each { |v| dbtp v }\ncc.to_s\nur.each do |w|\n  dbtp w\nend\n",
		"hm = {a: 1}\ngm = {b: 2}\nhm.size\nhm.merge!(gm) { |k, x, y| dbtp x }\nhm.size\nhm.each { |kk, vv| dbtp vv }\n",
		"ar = [1, \"s\"]\nar.size\nar.nothing_here { |q| dbtp q }\nar.size\nar.each_with_index { |e, i| dbtp e }\n",
	)
	extra = append(extra,
		// several ancestors (superclass, two included modules, an extended module) that define the same method
		// with different result types: which definition wins depends on the ancestor order
		"module Walker\n  def move\n    1\n  end\nend\nmodule Runner\n  def move\n    \"fast\"\n  end\nend\nclass Animal\n  def move\n    1.5\n  end\n\n  def rest\n    nil\n  end\nend\nclass Hound < Animal\n  include Walker\n  include Runner\nend\nclass Kitten < Animal\n  include Walker\nend\nclass Trout < Animal\n  extend Runner\n  extend Walker\nend\nhd = Hound.new\ndbtp hd.move\nhd.move.zork\ndbtp Kitten.new.move\ndbtp Trout.move\ndbtp Trout.new.move\nhd.rest.zork\n",
		// a call chain three methods deep whose innermost parameter is also reached directly with another type,
		// direct site first and chain first
		"def inner(a)\n  dbtp a\n  a\nend\ndef direct_use\n  inner(1)\nend\ndef mid(q)\n  inner(q)\nend\ndef outer(r)\n  mid(r)\nend\ndbtp outer(\"s\")\ndbtp direct_use\n",
		"def inner(a)\n  dbtp a\n  a\nend\ndef mid(q)\n  inner(q)\nend\ndef outer(r)\n  mid(r)\nend\ndef far(s)\n  outer(s)\nend\ndbtp far(1.5)\ndbtp inner(:sym)\ndbtp mid(nil)\n",
		// multiple assignment: swap, value list, array right-hand side, splat target; parameters with defaults as targets
		"def swap_plain\n  sa, sb = sb, sa\n  sa\nend\ndef order(first, second = nil)\n  first, second = second, first\n  second\nend\ndbtp order(1, \"s\")\ndef kwswap(ka, kb: 1)\n  ka, kb = kb, ka\n  kb\nend\ndbtp kwswap(2, kb: \"x\")\nma, mb = 1, \"s\"\ndbtp mb\nmc, md = [1.5, :q]\ndbtp mc\nme, *mf = 1, 2, 3\ndbtp mf\n",
		// calls of configured methods with too many arguments and wrong argument types, on literals and variables
		"sz = \"abc\"\ndbtp sz.length(1)\ndbtp sz.upcase(1, 2)\ndbtp sz.size(1, 2, 3)\nax = [1]\ndbtp ax.first(1, 2)\ndbtp ax.length(1, 2, 3)\ndbtp 1.zero?(1)\ndbtp 1.to_s(1, 2, 3)\nhx = {a: 1}\ndbtp hx.keys(1)\ndbtp hx.size(1, 2, 3)\ndbtp sz.to_s(1, 2, 3)\ndbtp sz + 1\ndbtp 1 + \"s\"\n",
		// conditionals with empty branches (the value of the conditional is observable), case/in with an empty body
		"def pick(pa)\n  if pa == 1\n    1\n  else\n  end\nend\ndbtp pick(1)\npick(1) + 1\npv = unless pick(2).nil?\n  2.5\nelse\nend\ndbtp pv\ndef pack(pb)\n  if pb.nil?\n  else\n    \"s\"\n  end\nend\ndbtp pack(1)\n",
		"pc = 1\npd = case pc\nin Integer\nin String\n  2\nend\ndbtp pd\npe = case pc\nwhen 1\nwhen 2\n  \"s\"\nelse\nend\ndbtp pe\n",
		// a class (not a module) with `class << self` holding methods with parameters, an index and a block
		"class Config\n  class << self\n    def load(path, mode = 1)\n      @store = [path]\n      @store[0]\n    end\n\n    def each_key(keys)\n      keys.each { |kk| kk.to_s }\n    end\n  end\n\n  def reload(force)\n    force\n  end\nend\ndbtp Config.load(\"a\", 2)\nConfig.each_key([:a])\nConfig.new.reload(true)\nConfig.zork\n",
		// values whose type is a union returned by an operator on a union receiver, used afterwards
		"cu = true\nuv = cu ? 1 : 2.5\nuw = uv * 2\ndbtp uw\nuw.abs\nuq = cu ? \"zz\" : 7\nur = uq * 2\ndbtp ur\nus = cu ? 7 : \"zz\"\nut = us * 2\ndbtp ut\nuw.zork\n",
		// block bodies whose statements form a two-step inference chain through user methods on the block parameter
		"def hm(a)\n  a\nend\ndef hn(b)\n  b.upcase\nend\n[1, 2].each do |bx|\n  by = hm(bx)\n  hn(by)\nend\n",
		// a user class with operator methods, called in operator syntax
		"class Vecq\n  def initialize(x)\n    @x = x\n  end\n\n  def +(other)\n    Vecq.new(1)\n  end\n\n  def ==(other)\n    true\n  end\n\n  def scale(k)\n    self + self\n  end\nend\nva = Vecq.new(1)\nvb = Vecq.new(2)\nvc = va + vb\ndbtp vc\nif va == vb\n  vd = va + va\nend\ndbtp va.scale(2)\n[va].each { |ve| ve + vb }\n",
		// entries that stay unresolved in every round: a reader of an instance variable nobody assigns, a parameter no call passes
		"class Reportq\n  attr_reader :path\n  attr_accessor :depth\n\n  def initialize\n  end\nend\ndef fmtq(value, unit)\n  value\nend\nrq = Reportq.new\nrq.path\ndbtp rq.path\nfmtq(1)\ndbtp rq.depth\nrq.zork\n",
		// parenthesised, block-less calls of block-capable methods at the end of a line, directly followed by a block-form conditional / loop
		"def capq(list, n)\n  mq = list.max(n)\n  if n > 1\n    n.zork\n  end\n  list.count(1)\n  unless n.nil?\n    n.zork2\n  end\n  mq.zork3\nend\ncapq([1, 2], 1)\ndef blkq(&block)\n  1\nend\ndef use_blkq(v)\n  blkq()\n  unless v.nil?\n    v.zork4\n  end\n  {a: 1}.merge({b: 2})\n  while v > 9\n    v.zork5\n  end\n  v.zork6\nend\nuse_blkq(1)\n",
		// singleton methods on two objects, each called on the right and on the wrong object
		"oa = \"x\"\ndef oa.shout\n  1\nend\nob = \"y\"\ndef ob.whisper\n  2.5\nend\ndbtp oa.shout\ndbtp ob.whisper\nob.shout\noa.whisper\noc = [1]\ndef oc.extra\n  :s\nend\ndbtp oc.extra\nob.extra\n",
		// configured methods called with their keyword arguments
		"dg = Dir.glob(\"*.rb\", base: \"lib\")\ndbtp dg\nDir.glob(\"*.rb\", 0, base: nil)\nDir.glob(\"*.rb\", base: 1)\ndbtp Test.keyword_json_test(name: 1)\nTest.keyword_json_test(name: \"s\")\n",
		// top-level redefinitions and re-bindings: the last definition / binding before a use wins
		"def label\n  1\nend\nmark = 1\ndef label\n  \"s\"\nend\nmark = \"s\"\ndef label\n  2.5\nend\nmark = 2.5\ndbtp label\ndbtp mark\nlabel.upcase\nmark.upcase\n",
		"class Gauge\n  def read\n    1\n  end\nend\nclass Gauge\n  def read\n    \"s\"\n  end\nend\ngg = Gauge.new\ndbtp gg.read\ngg.read.zork\n",
		// a module with `class << self`, a private section inside it, and calls of both methods
		"module Util\n  class << self\n    def helper(v)\n      v\n    end\n\n    private\n\n    def hidden\n      1\n    end\n  end\n\n  def self.plain\n    \"s\"\n  end\nend\ndbtp Util.helper(1)\ndbtp Util.plain\nUtil.hidden\nUtil.zork\n",
	)
	for i, s := range extra {
		out = append(out, Prog{Name: fmt.Sprintf("./g_extra_%d.rb", i), Src: s})
	}
	for wi, w := range wrap {
		for si, s := range stmts {
			out = append(out, Prog{Name: fmt.Sprintf("./g_%s_%d.rb", w.name, si), Src: w.f(s)})
			_ = wi
		}
	}
	return out
}

// DbpPrograms use the `dbp` debug keyword, whose output renders internal values. They are used by C05
// only (run-to-run determinism) and kept out of every comparing check.
func DbpPrograms() []Prog {
	return []Prog{
		{Name: "./g_dbp_0.rb", Src: "dbh = {a: 1}\ndbp dbh\n"},
		{Name: "./g_dbp_1.rb", Src: "dbl = [1, 2].each do |e|\n  e\nend\ndbp dbl\ndbs = \"s\"\ndbp dbs\n"},
	}
}

// TiePrograms are built so that every comparison key a sort of definitions could use ties somewhere:
// same-named classes in two or three namespaces (and at top level) holding same-named methods with
// identical signatures, instance and class methods of one name, distinct ti-doc comments, and call
// points for all of them. Used by C05: any order left to map iteration shows up as a difference.
func TiePrograms() []Prog {
	klass := func(mod, cls, doc, body string) string {
		s := "class " + cls + "\n  # ti-doc: " + doc + "\n  def title\n    " + body + "\n  end\n\n  # ti-doc: " + doc + " (class side)\n  def self.title\n    " + body + "\n  end\n\n  def other(v)\n    v\n  end\nend\n"
		if mod == "" {
			return s
		}
		return "module " + mod + "\n" + indent(s[:len(s)-1], 1) + "\nend\n"
	}
	two := klass("Admin", "Report", "title shown in the back office", "\"admin\"") + klass("Api", "Report", "title sent to clients", "\"api\"") +
		"ra = Admin::Report.new\nrb = Api::Report.new\nra.title\nrb.title\nAdmin::Report.title\nApi::Report.title\nra.other(1)\nrb.other(1)\n"
	three := klass("Admin", "Report", "back office", "\"admin\"") + klass("Api", "Report", "clients", "\"api\"") + klass("", "Report", "plain", "\"top\"") +
		"ra = Admin::Report.new\nrb = Api::Report.new\nrc = Report.new\nra.title\nrb.title\nrc.title\nReport.title\nrc.other(\"s\")\n"
	nested := "module Outer\n" + indent(klass("Inner", "Report", "inner", "1"), 1) + "\n" + indent(klass("", "Report", "outer", "1"), 1) + "\nend\n" +
		"x1 = Outer::Inner::Report.new\nx2 = Outer::Report.new\nx1.title\nx2.title\n"
	samesig := "class Alpha\n  def run(a)\n    a\n  end\nend\nclass Beta\n  def run(a)\n    a\n  end\nend\nmodule Gamma\n  def self.run(a)\n    a\n  end\nend\ndef run(a)\n  a\nend\nAlpha.new.run(1)\nBeta.new.run(1)\nGamma.run(1)\nrun(1)\n"
	// same-named classes of two namespaces with different superclasses and mixins (--extends, ancestor walks)
	parents := "class Base\n  def shared\n    1\n  end\nend\nclass Other\n  def shared\n    \"s\"\n  end\nend\nmodule Mixa\n  def mixed\n    1\n  end\nend\nmodule Mixb\n  def mixed\n    \"s\"\n  end\nend\n" +
		"module Aa\n  class Report < Base\n    include Mixa\n  end\nend\nmodule Bb\n  class Report < Other\n    include Mixb\n    extend Mixa\n  end\nend\n" +
		"pa = Aa::Report.new\npb = Bb::Report.new\ndbtp pa.shared\ndbtp pb.shared\ndbtp pa.mixed\ndbtp pb.mixed\n"
	return []Prog{{Name: "./g_tie_0.rb", Src: two}, {Name: "./g_tie_1.rb", Src: three}, {Name: "./g_tie_2.rb", Src: nested}, {Name: "./g_tie_3.rb", Src: samesig}, {Name: "./g_tie_4.rb", Src: parents}}
}

// OddLiteralPrograms place a string literal that spans two lines wherever ti quotes source text in a
// message or a record: as a method name after a dot, as a def name, as the argument of attr_*, include,
// a call, an index, a hash key, a symbol, a receiver. Used by C01/C04 (every printed line is well formed).
func OddLiteralPrograms() []Prog {
	ml := "\"na\nme\""
	srcs := []string{
		"class Kq\n  attr_accessor " + ml + "\n  attr_reader " + ml + "\nend\nKq.new\n",
		"xq = 1\nxq." + ml + "\nxq.foo\n",
		"class Kq\n  def " + ml + "\n    1\n  end\nend\nkq = Kq.new\nkq.zork\n",
		"class Kq\n  def self." + ml + "\n    1\n  end\n  include " + ml + "\nend\nKq.zork\n",
		"hq = {" + ml + " => 1}\nhq[" + ml + "]\nhq.fetch(" + ml + ").zork\n",
		"sq = " + ml + "\nsq.zork\n" + ml + ".zork\n1.zork(" + ml + ")\n",
		"def mq(a)\n  a\nend\nmq(" + ml + ", 2)\nmq " + ml + "\nKq." + ml + "\n",
		"yq = :" + ml + "\nyq.zork\nrequire " + ml + "\nraise " + ml + "\n",
		"case " + ml + "\nwhen " + ml + "\n  1.zork\nend\nzq = " + ml + " + 1\n",
		// hand-written strategies and arity diagnostics that echo an argument's source text
		"aq = [1]\naq.slice(" + ml + ")\naq.slice(0, " + ml + ")\ndef oq(a)\n  a\nend\noq(1, " + ml + ")\naq.first(" + ml + ", " + ml + ")\n1.dup(" + ml + ")\n",
		"class Kq\n  attr_reader " + ml,
		// shapes whose reporting code reaches an internal error on the unchanged tree (anonymous splat, a bare word
		// among attr symbols, an empty string receiver): they must stay diagnostics in every mode
		"def logq(*)\n  1\nend\nlogq(1, 2)\ndef kwq(**)\n  2\nend\nkwq(a: 1)\n",
		"module Modq\nend\nclass Kq\n  include Modq\n  extend Modq\n  attr_reader :a, b\n  attr_accessor c, :d\nend\n\"\".\n\"\".zork\nKq.new.a\n",
		"xq = {}\nxq[" + ml + "] = 1\nxq.zork(" + ml + " => 1)\nputs " + ml + ".zork\nyq = \"a\" + " + ml + " + 1\n",
	}
	var out []Prog
	for i, s := range srcs {
		out = append(out, Prog{Name: fmt.Sprintf("./g_odd_%d.rb", i), Src: s})
	}
	return out
}

func indent(s string, n int) string {
	pad := ""
	for i := 0; i < n; i++ {
		pad += "  "
	}
	out := ""
	for i, l := range splitLines(s) {
		if i > 0 {
			out += "\n"
		}
		out += pad + l
	}
	return out
}

func splitLines(s string) []string {
	var ls []string
	cur := ""
	for _, c := range s {
		if c == '\n' {
			ls = append(ls, cur)
			cur = ""
		} else {
			cur += string(c)
		}
	}
	ls = append(ls, cur)
	return ls
}
