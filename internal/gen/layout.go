package gen

import (
	"regexp"
	"strings"
)

// LineInfo is what the harness's conservative scanner knows about one source line.
type LineInfo struct {
	Text       string
	SafeAfter  bool // the boundary after this line is certainly a statement boundary
	Depth      int  // bracket depth at end of line
	InLiteral  bool // line ends inside a multi-line literal / heredoc / =begin block
	FirstWord  string
	IndentNext string
}

// StrLit is a single-line quoted string literal the harness can safely widen.
type StrLit struct {
	Line       int // 0-based line index
	Start, End int // byte offsets in the line of the opening quote / one past the closing quote
	Quote      byte
}

type Layout struct {
	Lines    []LineInfo
	Strings  []StrLit
	Refused  bool   // scanner saw something it does not understand: no edits at all
	Why      string
	FinalNL  bool
	Heredocs int
}

var heredocRe = regexp.MustCompile(`<<[~-]?(["'` + "`" + `]?)([A-Za-z_][A-Za-z0-9_]*)(["'` + "`" + `]?)`)

var blockParamsAtEnd = regexp.MustCompile(`\bdo\s*\|[^|]*\|\s*$`)

var contTokens = []string{",", "\\", "+", "-", "*", "/", "=", "&&", "||", "|", "&", ".", "::", "(", "[", "{", "?", ":", "<", ">", "<<", "%", "!", "^", "and", "or", "not", "then", "=>", "&."}

// Scan analyses src line by line. It is deliberately conservative: whenever it is unsure it marks the
// boundary unsafe (no edit is generated there) or refuses the whole file.
func Scan(src string) *Layout {
	lo := &Layout{FinalNL: strings.HasSuffix(src, "\n")}
	body := strings.TrimSuffix(src, "\n")
	lines := strings.Split(body, "\n")
	if src == "" {
		return lo
	}
	depth := 0
	inBegin := false
	var pendingHeredocs []string // terminators still to be seen
	heredocSquiggly := false
	_ = heredocSquiggly
	for li, line := range lines {
		info := LineInfo{Text: line}
		trim := strings.TrimSpace(line)
		if f := strings.Fields(trim); len(f) > 0 {
			info.FirstWord = f[0]
		}
		// =begin / =end
		if inBegin {
			info.InLiteral = true
			if strings.HasPrefix(line, "=end") {
				inBegin = false
				info.InLiteral = false
				info.Depth = depth
				info.SafeAfter = depth == 0
			}
			lo.Lines = append(lo.Lines, info)
			continue
		}
		if strings.HasPrefix(line, "=begin") {
			inBegin = true
			info.InLiteral = true
			lo.Lines = append(lo.Lines, info)
			continue
		}
		// heredoc body
		if len(pendingHeredocs) > 0 {
			if trim == pendingHeredocs[0] {
				pendingHeredocs = pendingHeredocs[1:]
				info.InLiteral = len(pendingHeredocs) > 0
				info.Depth = depth
				info.SafeAfter = !info.InLiteral && depth == 0
			} else {
				info.InLiteral = true
			}
			lo.Lines = append(lo.Lines, info)
			continue
		}
		// ordinary line: scan characters
		i := 0
		lastSig := "" // last significant token text
		lineStrs := []StrLit{}
		unknown := false
		for i < len(line) {
			c := line[i]
			switch {
			case c == '#':
				i = len(line)
			case c == '"' || c == '\'' || c == '`':
				j := i + 1
				closed := false
				interp := false
				for j < len(line) {
					if line[j] == '\\' {
						j += 2
						continue
					}
					if c == '"' && line[j] == '#' && j+1 < len(line) && line[j+1] == '{' {
						interp = true
					}
					if line[j] == c {
						closed = true
						break
					}
					j++
				}
				if !closed {
					// multi-line string or something unusual (?' character literal …): refuse file
					lo.Refused = true
					lo.Why = "unterminated quote on line"
					unknown = true
					i = len(line)
					break
				}
				if c != '`' && !interp {
					lineStrs = append(lineStrs, StrLit{Line: li, Start: i, End: j + 1, Quote: c})
				}
				lastSig = "str"
				i = j + 1
			case c == '%' && i+1 < len(line) && strings.ContainsRune("wWiIqQ", rune(line[i+1])) && i+2 < len(line) && strings.ContainsRune("[({<|!/", rune(line[i+2])):
				// %w[...] — must close on the same line, else refuse
				open := line[i+2]
				cl := map[byte]byte{'[': ']', '(': ')', '{': '}', '<': '>', '|': '|', '!': '!', '/': '/'}[open]
				j := strings.IndexByte(line[i+3:], cl)
				if j < 0 {
					lo.Refused = true
					lo.Why = "multi-line % literal"
					unknown = true
					i = len(line)
					break
				}
				i = i + 3 + j + 1
				lastSig = "str"
			case c == '/' && (lastSig == "" || lastSig == "(" || lastSig == "," || lastSig == "=" || lastSig == "=~" || lastSig == "if" || lastSig == "when" || lastSig == "|" || lastSig == "{"):
				// regexp literal: must close on this line
				j := i + 1
				closed := false
				for j < len(line) {
					if line[j] == '\\' {
						j += 2
						continue
					}
					if line[j] == '/' {
						closed = true
						break
					}
					j++
				}
				if !closed {
					lo.Refused = true
					lo.Why = "regexp?"
					unknown = true
					i = len(line)
					break
				}
				i = j + 1
				lastSig = "str"
			case c == '?' && i+1 < len(line) && (line[i+1] == '"' || line[i+1] == '\'') && (i+2 >= len(line) || !isIdent(line[i+2])):
				// ?" character literal
				i += 2
				lastSig = "str"
			case c == '<' && i+1 < len(line) && line[i+1] == '<':
				if m := heredocRe.FindStringSubmatchIndex(line[i:]); m != nil && m[0] == 0 && (lastSig == "" || lastSig == "=" || lastSig == "(" || lastSig == "," || lastSig == "ident-space") {
					sub := heredocRe.FindStringSubmatch(line[i:])
					pendingHeredocs = append(pendingHeredocs, sub[2])
					lo.Heredocs++
					i += m[1]
					lastSig = "str"
				} else {
					i += 2
					lastSig = "<<"
				}
			case c == '(' || c == '[' || c == '{':
				depth++
				lastSig = string(c)
				i++
			case c == ')' || c == ']' || c == '}':
				depth--
				lastSig = string(c)
				i++
			case c == ' ' || c == '\t' || c == '\r':
				if lastSig == "ident" {
					lastSig = "ident-space"
				}
				i++
			case isIdent(c):
				j := i
				for j < len(line) && (isIdent(line[j]) || line[j] == '?' || line[j] == '!') {
					j++
				}
				w := line[i:j]
				switch w {
				case "and", "or", "not", "then", "if", "when", "unless", "while", "until", "in":
					lastSig = w
				default:
					lastSig = "ident"
				}
				i = j
			default:
				// operator characters
				j := i
				for j < len(line) && strings.IndexByte("+-*/=<>!&|.:,\\^%~?;", line[j]) >= 0 {
					j++
				}
				if j == i {
					j = i + 1
				}
				lastSig = line[i:j]
				i = j
			}
		}
		if unknown {
			lo.Lines = append(lo.Lines, info)
			continue
		}
		lo.Strings = append(lo.Strings, lineStrs...)
		info.Depth = depth
		cont := false
		for _, t := range contTokens {
			if lastSig == t || (len(lastSig) > 1 && strings.HasSuffix(lastSig, t) && strings.IndexByte("+-*/=<>!&|.:,\\^%~?", lastSig[len(lastSig)-1]) >= 0) {
				cont = true
			}
		}
		if lastSig == "if" || lastSig == "unless" || lastSig == "while" || lastSig == "until" || lastSig == "when" || lastSig == "in" || lastSig == "and" || lastSig == "or" || lastSig == "not" {
			cont = true
		}
		// `… do |a, b|` / `… { |a|` at the end of a line closes a block parameter list: the `|` is not an operator
		if lastSig == "|" && blockParamsAtEnd.MatchString(line) {
			cont = false
		}
		info.InLiteral = len(pendingHeredocs) > 0
		info.SafeAfter = depth == 0 && !cont && !info.InLiteral
		lo.Lines = append(lo.Lines, info)
	}
	if depth != 0 || inBegin || len(pendingHeredocs) > 0 {
		// unbalanced by our count: do not trust depth-based decisions
		lo.Refused = true
		lo.Why = "unbalanced"
	}
	// a boundary is unsafe if the next non-blank line starts with a leading-dot continuation or an operator
	for i := range lo.Lines {
		if !lo.Lines[i].SafeAfter {
			continue
		}
		for j := i + 1; j < len(lo.Lines); j++ {
			t := strings.TrimSpace(lo.Lines[j].Text)
			if t == "" || strings.HasPrefix(t, "#") {
				continue
			}
			if strings.HasPrefix(t, ".") || strings.HasPrefix(t, "&.") || strings.HasPrefix(t, "&&") || strings.HasPrefix(t, "||") ||
				strings.HasPrefix(t, "?") || strings.HasPrefix(t, ":") && !strings.HasPrefix(t, "::") && len(t) > 1 && t[1] == ' ' {
				lo.Lines[i].SafeAfter = false
			}
			break
		}
	}
	return lo
}

// InsertLine returns src with `text` inserted as a new line after line index k (k = -1: before the first line).
func (lo *Layout) InsertLine(k int, text string) string {
	var sb strings.Builder
	if k == -1 {
		sb.WriteString(text + "\n")
	}
	for i, l := range lo.Lines {
		sb.WriteString(l.Text)
		if i < len(lo.Lines)-1 || lo.FinalNL {
			sb.WriteString("\n")
		}
		if i == k {
			if i == len(lo.Lines)-1 && !lo.FinalNL {
				sb.WriteString("\n")
			}
			sb.WriteString(text + "\n")
		}
	}
	return sb.String()
}

// WidenString returns src with n newlines inserted just before the closing quote of literal s.
func (lo *Layout) WidenString(s StrLit, n int) string {
	var sb strings.Builder
	for i, l := range lo.Lines {
		t := l.Text
		if i == s.Line {
			t = t[:s.End-1] + strings.Repeat("\n", n) + t[s.End-1:]
		}
		sb.WriteString(t)
		if i < len(lo.Lines)-1 || lo.FinalNL {
			sb.WriteString("\n")
		}
	}
	return sb.String()
}
