// Package chk is the bookkeeping shared by all checks: evidence files, known findings,
// replay artefacts and the VIOLATION / KNOWN-FINDING output contract.
package chk

import (
	"crypto/sha256"
	"encoding/hex"
	"encoding/json"
	"fmt"
	"os"
	"path/filepath"
	"regexp"
	"sort"
	"strconv"
	"sync"
	"time"
)

const VerifRoot = "/verif"

type Finding struct {
	Property string          `json:"property"`
	ID       string          `json:"id"`
	Status   string          `json:"status"` // known | fixed
	Title    string          `json:"title"`
	Match    string          `json:"match"` // anchored regexp over violation signatures
	Witness  json.RawMessage `json:"witness,omitempty"`
	Commit   string          `json:"commit,omitempty"`
	Note     string          `json:"note,omitempty"`
	re       *regexp.Regexp
}

type FindingsFile struct {
	Findings []*Finding `json:"findings"`
	Fixed    []string   `json:"fixed"`
}

// envDir: seeded-change runs (tools/verify_seed.sh) redirect evidence and replays so that the committed
// evidence always comes from /repo itself.
func envDir(k, d string) string {
	if v := os.Getenv(k); v != "" {
		return v
	}
	return d
}

func LoadFindings() (*FindingsFile, error) {
	b, err := os.ReadFile(filepath.Join(VerifRoot, "known_findings.json"))
	if err != nil {
		if os.IsNotExist(err) {
			return &FindingsFile{}, nil
		}
		return nil, err
	}
	var ff FindingsFile
	if err := json.Unmarshal(b, &ff); err != nil {
		return nil, fmt.Errorf("known_findings.json: %v", err)
	}
	for _, f := range ff.Findings {
		re, err := regexp.Compile("^(?:" + f.Match + ")$")
		if err != nil {
			return nil, fmt.Errorf("known_findings.json: finding %s: %v", f.ID, err)
		}
		f.re = re
	}
	return &ff, nil
}

type Violation struct {
	Sig    string `json:"sig"`
	Title  string `json:"title"`
	Replay string `json:"replay"`
}

type Run struct {
	ID    string
	Tier  string
	Seed  int64
	Level string
	Start time.Time

	mu          sync.Mutex
	Evaluations int64
	States      int64
	Transitions int64
	Validated   int64
	Nontrivial  int64
	Outcomes    map[string]int64
	Samples     []any
	Rule        string
	Exhaustive  bool
	Bounds      map[string]any
	Extra       map[string]any
	Assumptions []string
	CapsHit     []string
	Unconfirmed []string

	findings   *FindingsFile
	Violations []Violation
	violSigs   map[string]int
	KnownHit   map[string]int
	replayN    int
	MaxReplays int
}

func NewRun(id, tier string) *Run {
	seed, _ := strconv.ParseInt(os.Getenv("VERIF_SEED"), 10, 64)
	ff, err := LoadFindings()
	if err != nil {
		fmt.Println("HARNESS-ERROR", err)
		os.Exit(2)
	}
	return &Run{ID: id, Tier: tier, Seed: seed, Level: "model_checking", Start: time.Now(),
		Outcomes: map[string]int64{}, Bounds: map[string]any{}, Extra: map[string]any{},
		findings: ff, violSigs: map[string]int{}, KnownHit: map[string]int{}, Exhaustive: true, MaxReplays: 25}
}

func Hash(s string) string {
	h := sha256.Sum256([]byte(s))
	return hex.EncodeToString(h[:8])
}

// Outcome counts a distinct observed outcome (by hash of its canonical text).
func (r *Run) Outcome(s string) {
	r.mu.Lock()
	r.Outcomes[Hash(s)]++
	r.mu.Unlock()
}

func (r *Run) Sample(v any) {
	r.mu.Lock()
	if len(r.Samples) < 6 {
		r.Samples = append(r.Samples, v)
	}
	r.mu.Unlock()
}

// Known returns the known finding matching sig for this property, if any.
func (r *Run) Known(sig string) *Finding {
	for _, f := range r.findings.Findings {
		if f.Property == r.ID && f.Status == "known" && f.re.MatchString(sig) {
			return f
		}
	}
	return nil
}

// Report records a confirmed violation. If a known finding matches it is counted there;
// otherwise a replay file is written and a VIOLATION line will be printed by Finish.
// replay is any JSON-serialisable description (input, flags, config, observed, expected).
func (r *Run) Report(sig, title string, replay any) {
	r.mu.Lock()
	defer r.mu.Unlock()
	if f := r.Known(sig); f != nil {
		r.KnownHit[f.ID]++
		return
	}
	r.violSigs[sig]++
	if r.violSigs[sig] > 1 && len(r.Violations) >= 3 {
		// same signature again: count but do not write another replay
		return
	}
	if len(r.Violations) >= r.MaxReplays {
		return
	}
	r.replayN++
	dir := envDir("VERIF_REPLAY_DIR", filepath.Join(VerifRoot, "replays"))
	os.MkdirAll(dir, 0o755)
	path := filepath.Join(dir, fmt.Sprintf("%s-%s-%03d.json", r.ID, r.Tier, r.replayN))
	doc := map[string]any{"property": r.ID, "sig": sig, "title": title, "replay": replay}
	b, _ := json.MarshalIndent(doc, "", " ")
	os.WriteFile(path, b, 0o644)
	r.Violations = append(r.Violations, Violation{Sig: sig, Title: title, Replay: path})
}

func (r *Run) NViolations() int {
	n := 0
	for _, c := range r.violSigs {
		n += c
	}
	return n
}

// Finish writes the evidence file, prints the contract lines and returns the exit status.
func (r *Run) Finish() int {
	wall := time.Since(r.Start).Seconds()
	if r.States == 0 {
		r.States = r.Evaluations
	}
	cov := map[string]any{
		"evaluations":                   r.Evaluations,
		"distinct_nontrivial":           r.Nontrivial,
		"rule":                          r.Rule,
		"samples":                       r.Samples,
		"states":                        r.States,
		"transitions":                   r.Transitions,
		"traces_validated_against_impl": r.Validated,
		"exhaustive":                    r.Exhaustive && len(r.CapsHit) == 0,
		"bounds":                        r.Bounds,
		"distinct_outcomes":             len(r.Outcomes),
		"caps_hit":                      r.CapsHit,
		"unconfirmed":                   r.Unconfirmed,
		"known_findings_matched":        r.KnownHit,
	}
	for k, v := range r.Extra {
		cov[k] = v
	}
	if r.Assumptions == nil {
		r.Assumptions = []string{"in-process engine is observationally equal to the unmodified binary (validated on a seed-rotated slice and on every candidate)"}
	}
	if r.Samples == nil {
		r.Samples = []any{}
	}
	if len(r.Outcomes) <= 1 && r.Evaluations > 1 {
		cov["vacuous"] = true
	}
	ev := map[string]any{
		"property_id": r.ID,
		"tier":        r.Tier,
		"seed":        r.Seed,
		"level":       r.Level,
		"coverage":    cov,
		"assumptions": r.Assumptions,
		"wall_s":      wall,
		"violations":  r.NViolations(),
	}
	evDir := envDir("VERIF_EVIDENCE_DIR", filepath.Join(VerifRoot, "evidence"))
	os.MkdirAll(evDir, 0o755)
	b, _ := json.MarshalIndent(ev, "", " ")
	if err := os.WriteFile(filepath.Join(evDir, r.ID+".json"), b, 0o644); err != nil {
		fmt.Println("HARNESS-ERROR cannot write evidence:", err)
		return 2
	}
	var ids []string
	for id := range r.KnownHit {
		ids = append(ids, id)
	}
	sort.Strings(ids)
	for _, id := range ids {
		for _, f := range r.findings.Findings {
			if f.ID == id {
				fmt.Printf("KNOWN-FINDING: property=%s %s: %s (%d cases)\n", r.ID, f.ID, f.Title, r.KnownHit[id])
			}
		}
	}
	fmt.Printf("%s %s: evaluations=%d states=%d transitions=%d validated_on_real=%d distinct_outcomes=%d exhaustive=%v violations=%d wall=%.1fs\n",
		r.ID, r.Tier, r.Evaluations, r.States, r.Transitions, r.Validated, len(r.Outcomes), cov["exhaustive"], r.NViolations(), wall)
	if len(r.Violations) > 0 {
		for _, v := range r.Violations {
			fmt.Printf("VIOLATION property=%s replay=%s\n", r.ID, v.Replay)
			fmt.Printf("  sig=%s  %s\n", v.Sig, v.Title)
		}
		return 1
	}
	return 0
}
