#!/bin/bash
# run.sh <ID> [quick|thorough] — entry point registered in MANIFEST.json
cd "$(dirname "$0")"
. ./env.sh
if [ ! -x bin/timc ] || [ ! -x bin/overlaygen ]; then ./setup.sh >/dev/null || { echo "HARNESS-ERROR setup failed"; exit 2; }; fi
exec ./bin/timc check "$1" --tier "${2:-${VERIF_TIER:-quick}}"
