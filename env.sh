# sourced by setup.sh and run.sh: pins the offline Go toolchain that /repo's go.mod needs
GOMODCACHE_DIR="$(go env GOMODCACHE 2>/dev/null || echo /root/go/pkg/mod)"
GO124="$GOMODCACHE_DIR/golang.org/toolchain@v0.0.1-go1.24.5.linux-amd64/bin/go"
if [ -x "$GO124" ]; then
  export VERIF_GO="$GO124" GOTOOLCHAIN=local
else
  export VERIF_GO="$(command -v go)"
  unset GOTOOLCHAIN
fi
export GOFLAGS=-mod=mod GOPROXY=off
unset GOSUMDB
